"""E1 runner: CrossHair conditions in parallel, vacuity twins, concrete replay of every counterexample.

A *condition* is (harness module, function, env).  The function has a PEP-316 contract `post: _`;
its parameters are the symbolic variables; env carries the case-split (shape, cut index ...), which is
concrete per condition.  Verdicts:
  confirmed      CrossHair "Confirmed over all paths" (z3 discharged every path condition)
  violated       CrossHair produced a model AND the model reproduces when the harness is re-run on
                 /repo/src in a fresh interpreter without CrossHair
  spurious       model did not reproduce  -> harness error
  inconclusive   "Not confirmed" / "Unable to meet precondition" / timeout / crash -> harness error
The twin (XH_TWIN=1) turns the harness' final `return ok()` into False: CrossHair must then find a
model (reachability witness); the model is replayed concretely with the twin OFF and must return True
(CrossHair's symbolic run and CPython agree on that input).
"""
import json
import os
import re
import subprocess
import sys
import tempfile
import time
from concurrent.futures import ThreadPoolExecutor

from . import common as C

XHDIR = os.path.join(C.VERIF, "xh")


class Cond:
    def __init__(self, module, func, env=None, timeout=120, label=None, expect="confirm", twin=True, note=""):
        self.module, self.func = module, func
        self.env = {k: str(v) for k, v in (env or {}).items()}
        self.timeout = timeout
        self.expect = expect  # "confirm" | "finding:<key>"
        self.twin = twin
        self.note = note
        self.label = label or (func + "".join(f"_{k[3:] if k.startswith('XH_') else k}{v}" for k, v in sorted(self.env.items())))
        self.label = re.sub(r"[^A-Za-z0-9_.=-]", "", self.label)[:120]


def _base_env(extra):
    env = dict(os.environ)
    env["PYTHONPATH"] = os.pathsep.join([XHDIR, C.VERIF])
    env["VERIF_SRC"] = C.SRC
    env["PYTHONHASHSEED"] = "0"
    env[C.GUARD] = "1"
    env.update(extra)
    return env


_LINE = re.compile(r"^(?P<file>[^:]+):(?P<line>\d+): (?P<kind>error|info|warning): (?P<msg>.*)$")


def _crosshair(cond, twin, timeout):
    stats = tempfile.NamedTemporaryFile(prefix="xhstats", suffix=".json", delete=False)
    env = _base_env(cond.env)
    env["XH_STATS_FD"] = str(stats.fileno())  # CrossHair audits open(); an inherited fd + os.pwrite is not audited
    if twin:
        env["XH_TWIN"] = "1"
    else:
        env.pop("XH_TWIN", None)
    cmd = [C.XH, "check", "--report_all", "--per_condition_timeout", str(timeout),
           "--per_path_timeout", str(max(10, timeout / 4)), f"{cond.module}.{cond.func}"]
    t0 = time.time()
    try:
        p = subprocess.run(cmd, cwd=XHDIR, env=env, capture_output=True, text=True, timeout=timeout * 2 + 60,
                           pass_fds=(stats.fileno(),))
        out, err, rc = p.stdout, p.stderr, p.returncode
    except subprocess.TimeoutExpired as e:
        out, err, rc = (e.stdout or b"").decode() if isinstance(e.stdout, bytes) else (e.stdout or ""), "hard timeout", 124
    dt = time.time() - t0
    paths = 0
    try:
        stats.close()
        paths = json.load(open(stats.name)).get("paths", 0)
    except Exception:
        pass
    try:
        os.unlink(stats.name)
    except OSError:
        pass
    verdict, detail, call = "inconclusive", (out + err).strip()[-600:], None
    for line in out.splitlines():
        m = _LINE.match(line)
        if not m:
            continue
        msg = m.group("msg")
        if m.group("kind") == "info" and msg.startswith("Confirmed over all paths"):
            verdict, detail = "confirmed", msg
        elif m.group("kind") == "error":
            mm = re.search(r"when calling (?P<call>.*?)(?: \(which returns .*\))?$", msg)
            if mm:
                verdict, detail, call = "model", msg, mm.group("call")
            else:
                verdict, detail = "inconclusive", msg
            break
        elif "Not confirmed" in msg or "Unable to meet precondition" in msg:
            verdict, detail = "inconclusive", msg
    return {"verdict": verdict, "detail": detail, "call": call, "seconds": round(dt, 2), "paths": paths, "rc": rc}


def write_replay(pid, cond, call, suffix=""):
    path = os.path.join(C.replay_dir(pid), f"{cond.label}{suffix}.py")
    with open(path, "w") as f:
        f.write(f"""#!{C.PY}
# Replay of a solver model against the real code ({C.SRC}) WITHOUT CrossHair.
# exit 0: harness returned True (property held on this input); 10: returned False; 11: raised.
import os, sys, traceback
os.environ.update({json.dumps(cond.env)})
os.environ.pop("XH_TWIN", None)
os.environ.setdefault("VERIF_SRC", {C.SRC!r})
sys.path[:0] = [{XHDIR!r}, {C.VERIF!r}]
import {cond.module} as H
from {cond.module} import *
try:
    r = H.{call}
except BaseException:
    traceback.print_exc(); sys.exit(11)
print("harness {cond.module}.{cond.func} returned", r)
sys.exit(0 if r is True else 10)
""")
    os.chmod(path, 0o755)
    return path


def run_replay(path):
    try:
        p = subprocess.run([C.PY, path], capture_output=True, text=True, timeout=300, env=_base_env({}))
        return p.returncode, (p.stdout + p.stderr)[-800:]
    except subprocess.TimeoutExpired:
        return 124, "replay timeout"


def check_condition(pid, cond):
    res = {"label": cond.label, "func": f"{cond.module}.{cond.func}", "env": cond.env, "expect": cond.expect}
    main = _crosshair(cond, False, cond.timeout)
    if main["verdict"] == "inconclusive" and "hard timeout" not in main["detail"] and os.environ.get("XH_NO_RETRY") != "1":
        main2 = _crosshair(cond, False, cond.timeout * 3)
        main2["retried"] = True
        main = main2
    res["main"] = main
    res["status"] = main["verdict"]
    if main["verdict"] == "model":
        rp = write_replay(pid, cond, main["call"])
        rc, out = run_replay(rp)
        res["replay"], res["replay_rc"], res["replay_out"] = rp, rc, out
        res["status"] = "violated" if rc in (10, 11) else "spurious"
    if cond.twin and res["status"] in ("confirmed",):
        tw = _crosshair(cond, True, min(cond.timeout, 90))
        res["twin"] = tw
        if tw["verdict"] != "model":
            res["status"] = "vacuous"
        else:
            rp = write_replay(pid, cond, tw["call"], "_witness")
            rc, out = run_replay(rp)
            res["witness_call"] = tw["call"]
            res["witness_rc"] = rc
            if rc != 0:
                res["status"] = "witness_mismatch"
                res["replay_out"] = out
    return res


def run_conditions(pid, conds, jobs=None):
    C.ensure_venv()
    jobs = jobs or int(os.environ.get("VERIF_JOBS", "16"))
    with ThreadPoolExecutor(max_workers=jobs) as ex:
        return list(ex.map(lambda c: check_condition(pid, c), conds))


def summarize(pid, results, ev, findings=None):
    """Fill evidence from results; print VIOLATION / KNOWN-FINDING lines; return exit code."""
    findings = C.finding_keys(pid) if findings is None else findings
    n = len(results)
    confirmed = sum(1 for r in results if r["status"] == "confirmed")
    paths = sum(r["main"]["paths"] + r.get("twin", {}).get("paths", 0) for r in results)
    secs = sum(r["main"]["seconds"] + r.get("twin", {}).get("seconds", 0) for r in results)
    code = C.EXIT_OK
    bad = []
    known_hit = 0
    known_by_key = {}
    for r in results:
        exp = r["expect"]
        st = r["status"]
        if exp.startswith("finding:"):
            key = exp.split(":", 1)[1]
            if st == "violated":
                if key in findings:
                    known_hit += 1
                    known_by_key.setdefault(key, []).append(r)
                else:
                    C.violation(pid, r["replay"])
                    ev.violations += 1
                    code = C.EXIT_VIOLATION
            elif st in ("confirmed",):
                pass  # the finding no longer exists on this tree
            else:
                bad.append(r)
            continue
        if st == "confirmed":
            continue
        if st == "violated":
            C.violation(pid, r["replay"])
            print("  " + r["main"]["detail"][:300])
            ev.violations += 1
            code = C.EXIT_VIOLATION
        else:
            bad.append(r)
    for key, rs in known_by_key.items():  # one line per listed finding
        C.known_finding(pid, f"{key}: {findings[key].get('what', '')} [{len(rs)} condition(s) of exactly this class; e.g. {rs[0]['main']['call']}; replay {rs[0]['replay']}]")
    ev.coverage["known_findings_hit"] = sorted(known_by_key)
    cov = ev.coverage
    cov.setdefault("conditions", 0)
    cov["conditions"] += n
    cov["obligations"] = cov.get("obligations", 0) + n
    cov["discharged"] = cov.get("discharged", 0) + confirmed + known_hit
    cov["evaluations"] = cov.get("evaluations", 0) + paths
    cov["crosshair_paths"] = cov.get("crosshair_paths", 0) + paths
    cov["solver_cpu_s"] = round(cov.get("solver_cpu_s", 0) + secs, 1)
    cov["samples"] += [
        {"condition": r["label"], "status": r["status"], "paths": r["main"]["paths"], "seconds": r["main"]["seconds"],
         "reachability_witness": r.get("witness_call"), "model": r["main"].get("call")}
        for r in results[:40]
    ]
    if bad and code == C.EXIT_OK:
        code = C.EXIT_HARNESS
    for r in bad:
        print(f"HARNESS-ERROR property={pid} condition={r['label']} status={r['status']} detail={r['main']['detail'][:300]!r} {r.get('replay_out', '')[-300:]!r}", flush=True)
    return code
