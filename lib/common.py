"""Shared plumbing for every check: exit protocol, evidence files, known findings, replays."""
import json
import os
import sys
import time

VERIF = os.path.dirname(os.path.dirname(os.path.abspath(__file__)))
REPO = os.environ.get("VERIF_REPO", "/repo")
SRC = os.path.join(REPO, "src")
PY = os.path.join(VERIF, ".venv", "bin", "python")
XH = os.path.join(VERIF, ".venv", "bin", "crosshair")
# mutation self-tests (VERIF_REPO=<scratch worktree>) must not overwrite the evidence of the real tree: they write under VERIF_OUT
OUT = os.environ.get("VERIF_OUT") or (VERIF if os.path.realpath(REPO) == "/repo" else os.path.join("/tmp", "verif_out_" + os.path.basename(os.path.normpath(REPO))))
EXIT_OK, EXIT_VIOLATION, EXIT_HARNESS = 0, 1, 3
GUARD = "UBERJOB_VERIF"


def tier():
    return os.environ.get("VERIF_TIER", "quick")


def seed():
    try:
        return int(os.environ.get("VERIF_SEED", "0"))
    except ValueError:
        return 0


def ensure_venv():
    if not os.path.exists(PY):
        import subprocess

        subprocess.run([os.path.join(VERIF, "setup.sh")], check=True, stdout=subprocess.DEVNULL)


def replay_dir(pid):
    d = os.path.join(OUT, "replays", pid)
    os.makedirs(d, exist_ok=True)
    return d


def known_findings():
    """Entries of /verif/known_findings.jsonl: {"kind": "finding"|"fixed", "property": id, "key": str, ...}."""
    path = os.path.join(VERIF, "known_findings.jsonl")
    out = []
    if os.path.exists(path):
        for line in open(path):
            line = line.strip()
            if line and not line.startswith("#"):
                out.append(json.loads(line))
    return out


def finding_keys(pid):
    return {e["key"]: e for e in known_findings() if e.get("kind") == "finding" and e["property"] == pid}


class Evidence:
    def __init__(self, pid, level):
        self.pid, self.level, self.t0 = pid, level, time.time()
        self.coverage = {"samples": []}
        self.assumptions = []
        self.violations = 0

    def write(self):
        d = {
            "property_id": self.pid,
            "tier": tier() if tier() in ("quick", "thorough") else "quick",
            "seed": seed(),
            "level": self.level,
            "coverage": self.coverage,
            "assumptions": self.assumptions,
            "wall_s": round(time.time() - self.t0, 2),
            "violations": self.violations,
        }
        os.makedirs(os.path.join(OUT, "evidence"), exist_ok=True)
        p = os.path.join(OUT, "evidence", f"{self.pid}.json")
        with open(p + ".tmp", "w") as f:
            json.dump(d, f, indent=1, default=str)
        os.replace(p + ".tmp", p)
        return p


def violation(pid, replay_path):
    print(f"VIOLATION property={pid} replay={replay_path}", flush=True)


def known_finding(pid, text):
    print(f"KNOWN-FINDING: property={pid} {text}", flush=True)
