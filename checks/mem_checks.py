"""E1 check for C16 (intermediate results are released as soon as their last consumer has finished)."""
import os

from lib import common as C
from lib import xhrun

STUBS = [
    "engine: sequential stand-in for run_function_on_graph (engine contract: E2 checks C01/C04/C06/C07) that inspects references after every "
    "process(node); processing order = symbolic ranks among the ready nodes (every topological order of the physical graph); max_errors=None so the run "
    "carries on after a failure",
    "what uberjob 'holds' = everything reachable (gc.get_referents; functions: closure cells/defaults only; modules, types, code not entered) from the "
    "locals of uberjob's live frames (run_physical, _run.run), the process closure, the physical graph and the first recorded error with its "
    "cause/context/traceback frames",
    "oracle: a result may be reachable iff it is (contained in) the requested output or an argument consumer (positional/keyword edge, gather calls "
    "included) has not been processed yet; exemption: arguments of a consumer that FAILED INSIDE A PYTHON FUNCTION (CPython keeps the f_back chain of "
    "traceback frames alive: the exception uberjob must keep pins BoundCall.run's frame); a consumer failing in a C-level callable gets no exemption",
    "outside the claim: that CPython actually frees the object; references that exist only inside unreachable garbage cycles (not visible to a walk from "
    "the roots; reference-count liveness is unusable under CrossHair's tracer); concurrency (release happens inside process(node), before the call's end "
    "event: ordering vs. other calls is C01)",
    "networkx untraced; plan sizes N<=3 (quick) / N<=4 (thorough)",
]


def conditions(tier):
    cs = []

    def add(n, edge, out, retry, fail=None, timeout=600):
        env = {"XH_N": n, "XH_EDGE": edge, "XH_OUT": out, "XH_RETRY": retry}
        lab = f"c16_release_n{n}_{edge}_{out}_r{retry}"
        if fail is not None:
            env["XH_FAIL"] = fail
            lab += f"_fail{fail}".replace("-", "m")
        cs.append(xhrun.Cond("harness_mem", "c16_release", env, timeout=timeout, label=lab))

    for edge in ("pos", "kw", "dep", "mix"):
        for out in ("last", "list", "none", "all"):
            add(3, edge, out, 1)
    add(3, "mix", "list", 2)
    add(3, "pos", "last", 2)
    add(3, "pos", "first", 1)
    if tier == "thorough":
        for edge, out in (("mix", "list"), ("pos", "last"), ("kw", "all"), ("pos", "none")):
            for fail in (-1, 0, 1, 2, 3):
                add(4, edge, out, 1, fail, timeout=1500)
        add(4, "pos", "list", 2, 1, timeout=1500)
        add(4, "mix", "last", 2, 2, timeout=1500)
    return cs


def main(pid):
    if pid != "C16":
        raise SystemExit(f"no check for {pid}")
    tier = C.tier()
    ev = C.Evidence(pid, "other")
    ev.assumptions = list(STUBS)
    results = xhrun.run_conditions(pid, conditions(tier))
    code = xhrun.summarize(pid, results, ev)
    cov = ev.coverage
    cov["functions_under_test"] = ["uberjob.run", "pruning.prune_plan", "run_physical.run_physical", "run_physical.prep_run_physical", "prep_run_physical.process",
                                   "BoundCall.run", "_create_bound_call_lookup_and_output_slot", "_util.retry.create_retry (XH_RETRY=2)", "Plan._gather"]
    cov["oracle"] = "reference walk from uberjob's live frames / closures / kept error after every call boundary vs 'output or unfinished argument consumer'"
    cov["explanation"] = ("bounded symbolic execution (CrossHair/z3): symbolic DAG bits, processing-order ranks, failing node and failure kind; the solver "
                          "exhausts the finite dimensions path by path (honest limit: these are small codes), ranks are unbounded ints")
    cov["checker_cmd"] = "crosshair check --report_all --per_condition_timeout T harness_mem.c16_release (one process per condition), z3 backend"
    cov["trusted_base"] = ["CrossHair 0.0.110", "z3", "CPython 3.12 gc.get_referents", "harness stubs listed in assumptions"]
    cov["bounds"] = "conditions: " + ", ".join(sorted({r["label"] for r in results}))[:2500]
    cov["rule"] = "one obligation per (N, edge kind, output kind, retry[, failing node])"
    cov["distinct_nontrivial"] = sum(1 for r in results if r["status"] == "confirmed" and r["main"]["paths"] > 1)
    ev.write()
    print(f"{pid} {tier}: {cov['discharged']}/{cov['obligations']} conditions discharged, {cov['crosshair_paths']} paths, exit {code}")
    return code
