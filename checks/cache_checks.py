"""E1 checks for the incremental-caching properties (C03 C05 C08 ...)."""
import json
import os
import subprocess
import sys

from lib import common as C
from lib import xhrun

from . import contract

sys.path.insert(0, os.path.join(C.VERIF, "xh"))

STUBS = [
    "engine: run_function_on_graph replaced by a sequential stand-in satisfying the engine contract E2 establishes (C01/C04/C06/C07); W=1",
    "stores: in-memory LStore with a logical clock (write => strictly larger time); duck-typed datetimes carrying ints; "
    "the *_falsy_store conditions use a store class that defines __len__ (falsy while it holds no value)",
    "networkx runs untraced (concrete graphs only); CrossHair 0.0.110 + z3 decide each path",
    "pre-state times and fresh_time pairwise distinct and earlier than 'now' (the property's own assumptions)",
    "plan sizes: the listed shapes (<= 4 logical nodes); larger plans are outside the claim",
]


def shapes_for(tier, k=None):
    """Catalog shapes + the literal shapes (the chain of dependent sources is for C09 only: nothing can regenerate its
    downstream source, so 'a repeated run does nothing' is not expected of it)."""
    import shapes

    if tier == "quick":
        return shapes.QUICK + [shapes.BY_NAME[n] for n in shapes.EXTRA_QUICK]
    return shapes.THOROUGH + [s for s in shapes.EXTRA if not s.name.startswith("dep_source_chain")]


def max_ops(shape):
    """Operation count of the longest run of this shape (everything missing): measured on the real code, concretely."""
    code = f"""
import os, sys, json
os.environ['XH_SHAPE'] = {json.dumps(json.dumps(shape.to_json()))}
sys.path[:0] = [{os.path.join(C.VERIF, 'xh')!r}]
import harness_cache as H, world as W
best = 0
import itertools
n = H.SHAPE.n
for P in itertools.product([False, True], repeat=n):
    for perm in ([10, 20, 30, 40], [40, 30, 20, 10]):
        P_ = [P[j] or (H.SHAPE.roles[j] == 'src' and not H.SHAPE.preds[j]) for j in range(n)]
        w = W.World(W.NOW); b = W.build(H.SHAPE, w, P_, perm[:n])
        try: W.run(b, H.SHAPE, w)
        except Exception: pass
        best = max(best, w.ops)
print(best)
"""
    env = dict(os.environ, VERIF_SRC=C.SRC)
    out = subprocess.run([C.PY, "-c", code], capture_output=True, text=True, env=env, timeout=120)
    return int(out.stdout.strip().splitlines()[-1])


def falsy_shapes(tier):
    """Shapes also run with stores whose truth value is False while they hold nothing (XH_FALSY=1, xh/world.py)."""
    import shapes

    return [shapes.BY_NAME[n] for n in (("chain_sss", "chain_src_s_u_s") if tier == "quick" else [s.name for s in shapes.QUICK])]


def conds_c05(tier):
    return [xhrun.Cond("harness_cache", "c05_events", {"XH_SHAPE": json.dumps(s.to_json())}, timeout=240,
                       label=f"c05_events_{s.name}") for s in shapes_for(tier)] + \
           [xhrun.Cond("harness_cache", "c05_events", {"XH_SHAPE": json.dumps(s.to_json()), "XH_FALSY": 1}, timeout=240,
                       label=f"c05_events_{s.name}_falsy_store") for s in falsy_shapes(tier)]


def conds_c03(tier):
    cs = [xhrun.Cond("harness_cache", "c03_step", {"XH_SHAPE": json.dumps(s.to_json())}, timeout=240,
                     label=f"c03_step_{s.name}") for s in shapes_for(tier)]
    if tier == "thorough":
        cs += [xhrun.Cond("harness_cache", "c03_step", {"XH_SHAPE": json.dumps(s.to_json()), "XH_ORDER": "fifo"},
                          timeout=240, label=f"c03_step_{s.name}_fifo") for s in shapes_for(tier)]
    cs += [xhrun.Cond("harness_cache", "c03_step", {"XH_SHAPE": json.dumps(s.to_json()), "XH_FALSY": 1}, timeout=240,
                      label=f"c03_step_{s.name}_falsy_store") for s in falsy_shapes(tier)]
    cs += ordering_lemma()
    return cs


def ordering_lemma():
    """C03 / C08 quantify over schedules but run on the sequential stand-in: what a schedule can change is the ORDER of store
    operations, so the physical-plan ordering conditions of C09 for the shapes with dependent sources are part of these
    checks too (a lost ordering edge = some schedule reads a dependent source before its generator ran)."""
    import shapes

    return [xhrun.Cond("harness_cache", "c09_order", {"XH_SHAPE": json.dumps(shapes.BY_NAME[nm].to_json())}, timeout=300,
                       label=f"ordering_{nm}") for nm in ("dep_source", "dep_source_2pred", "dep_source_chain", "dep_source_chain_rev")]


def conds_c09(tier):
    import shapes

    names = (["chain_sss", "chain_src_s_u_s", "join_s_s_into_s", "fork_unstored_mid", "dep_edge", "dep_source", "dep_source_2pred", "out_unstored",
              "lit_mid", "reg_literal", "dep_source_chain", "dep_source_chain_rev", "lit_chain"]
             if tier == "quick" else [s.name for s in shapes.THOROUGH + shapes.EXTRA])
    cs = [xhrun.Cond("harness_cache", "c09_order", {"XH_SHAPE": json.dumps(shapes.BY_NAME[nm].to_json())}, timeout=300,
                     label=f"c09_order_{nm}") for nm in names]
    if tier == "thorough":
        cs += [xhrun.Cond("harness_cache", "c09_order", {"XH_SHAPE": json.dumps(shapes.BY_NAME[nm].to_json()), "XH_ORDER": "fifo"},
                          timeout=300, label=f"c09_order_{nm}_fifo") for nm in names]
    return cs


def conds_c08(tier):
    import shapes

    names = ["chain_sss", "join_s_s_into_s", "chain_src_s_u_s"] if tier == "quick" else [s.name for s in shapes.THOROUGH] + ["lit_mid", "reg_literal", "lit_mid_src"]
    cs = []
    info = {}
    for nm in names:
        s = shapes.BY_NAME[nm]
        m = max_ops(s)
        info[nm] = m
        for k in range(m):
            kinds = ["raise"] if tier == "quick" else ["raise", "die"]
            for kind in kinds:
                cs.append(xhrun.Cond("harness_cache", "c03_step",
                                     {"XH_SHAPE": json.dumps(s.to_json()), "XH_CUT": k, "XH_CUT_KIND": kind},
                                     timeout=400, label=f"c08_cut_{nm}_k{k}_{kind}",
                                     twin=(k % 4 == 0)))
    cs += ordering_lemma()
    # for file-backed stores the cut can also be the process dying between two FILE operations of one store write: the
    # death-index conditions of C11 (the store then holds the complete old or the complete new value, and its modified time
    # changes only with the new value -- exactly what the cut model above assumes of a store)
    from . import fs_checks

    cs += [c for c in fs_checks.conds_c11(tier) if c.label.endswith("_die") or "two" in c.label]  # two stores in one directory: no shared staging file
    return cs, info


def main(pid):
    tier = C.tier()
    ev = C.Evidence(pid, "other")
    ev.assumptions = list(STUBS)
    extra = {}
    if pid == "C05":
        conds = conds_c05(tier)
        ev.coverage["functions_under_test"] = ["uberjob.run", "caching.plan_with_value_stores", "caching._get_stale_nodes",
                                               "caching._add_value_store", "pruning.prune_plan", "run_physical.prep_run_physical"]
        ev.coverage["oracle"] = "declarative out-of-date set + expected call/read/write multisets (xh/world.py: stale_oracle, expected_events)"
    elif pid == "C03":
        conds = conds_c03(tier)
        ev.coverage["oracle"] = "inductive step: pre-state satisfies I (U(n) => from-scratch value, everything else garbage); post: output/stores from-scratch, I holds"
    elif pid == "C08":
        conds, extra = conds_c08(tier)
        ev.coverage["max_ops_per_shape"] = extra
        ev.coverage["oracle"] = "cut at operation k (every k < measured max op count): I holds after the cut; completed writes look up to date; follow-up run repairs and does not rewrite them"
    elif pid == "C09":
        conds = conds_c09(tier)
        ev.assumptions.append("stores normalise: read() returns ('norm', written) so a consumer wired to the in-memory result is distinguishable")
        ev.assumptions.append("'a before b in every schedule' is decided as 'the real physical plan has a path a ~> b' (engine contract C01, established by E2)")
        ev.coverage["functions_under_test"] = ["uberjob.run(dry_run=True)", "caching.plan_with_value_stores", "caching._add_value_store",
                                               "pruning.prune_plan", "pruning._prune_literal_if_trivial", "run_physical.run_physical"]
        ev.coverage["oracle"] = ("physical plan of the real dry run vs declarative requirements: write call per rebuilt value fed by its call; write->read path; "
                                 "argument consumers fed by the read node under the same key and never by the call; plain dependents after the write; "
                                 "upstream write ~> downstream write; stale dependent source read after its predecessors; output redirected; "
                                 "then the real run: outputs/stored values computed from normalised reads, event order w<r<consumer")
    else:
        raise SystemExit(f"no check for {pid}")
    fut = contract.start(pid)
    results = xhrun.run_conditions(pid, conds)
    code = xhrun.summarize(pid, results, ev)
    code = contract.finish(pid, fut, ev, code)
    cov = ev.coverage
    cov["explanation"] = ("bounded symbolic execution of the real uberjob code: CrossHair enumerates every feasible path of the harness for the "
                          "given shape and z3 discharges each path condition ('Confirmed over all paths'); symbolic values (times, flags) are "
                          "unbounded, the plan shape / cut index are the stated bound. Not a proof for all plans.")
    cov["checker_cmd"] = "crosshair check --report_all --per_condition_timeout T harness_cache.<fn> (one process per condition), z3 backend"
    cov["trusted_base"] = ["CrossHair 0.0.110", "z3 4.x (crosshair's)", "CPython 3.12", "harness stubs listed in assumptions"]
    cov["bounds"] = "shapes: " + ", ".join(sorted({r["label"] for r in results}))[:1500]
    cov["rule"] = "one obligation per (shape, cut index[, order]); symbolic: present flags, modified times, fresh_time (unbounded ints); discharged = 'Confirmed over all paths' + reachable twin"
    cov["distinct_nontrivial"] = sum(1 for r in results if r["status"] == "confirmed" and r["main"]["paths"] > 1)
    ev.write()
    print(f"{pid} {tier}: {cov['discharged']}/{cov['obligations']} conditions discharged, {cov['crosshair_paths']} paths, exit {code}")
    return code
