import importlib
import sys
import traceback

from lib import common as C

MODULES = {
    "C01": "checks.conc_checks", "C04": "checks.conc_checks", "C06": "checks.conc_checks", "C07": "checks.conc_checks",
    "C10": "checks.conc_checks", "C17": "checks.conc_checks",
    "C03": "checks.cache_checks", "C05": "checks.cache_checks", "C08": "checks.cache_checks",
    "C02": "checks.eval_checks", "C09": "checks.cache_checks",
    "C11": "checks.fs_checks", "C12": "checks.fs_checks",
    "C13": "checks.imm_checks", "C14": "checks.imm_checks",
    "C15": "checks.prog_checks", "C20": "checks.prog_checks",
    "C19": "checks.tb_checks", "C18": "checks.time_checks", "C16": "checks.mem_checks",
}


def main():
    pid = sys.argv[1]
    try:
        mod = importlib.import_module(MODULES[pid])
        code = mod.main(pid)
    except SystemExit as e:
        code = e.code
    except BaseException:
        traceback.print_exc()
        print(f"HARNESS-ERROR property={pid} (exception in the check driver)")
        code = C.EXIT_HARNESS
    sys.exit(code)


if __name__ == "__main__":
    main()
