"""E1 check for C19: a failure is attributed to the user line that created the failing symbolic call."""
import json
import os
import subprocess
import sys

from lib import common as C
from lib import xhrun

sys.path.insert(0, os.path.join(C.VERIF, "xh"))

FAULTS = ("call", "gpos", "gkw", "gnest", "gexp", "unpack", "addw", "addr", "srcr", "addm", "srcm")
KIND = {
    "call": "plan.call whose function raises (run phase)",
    "gpos": "implicit gather of a structured POSITIONAL argument of plan.call (gather_set fails)",
    "gkw": "implicit gather of a structured KEYWORD argument of plan.call (gather_set fails)",
    "gnest": "implicit gather nested in a keyword argument: set inside a tuple inside a list (gather_set fails)",
    "gexp": "explicit plan.gather (gather_set fails)",
    "unpack": "plan.unpack of an iterable of the wrong length",
    "addw": "registry.add: store write fails (value out of date)",
    "addr": "registry.add: read-back after a rebuild fails / read of an up-to-date value fails",
    "srcr": "registry.source: source read fails",
    "addm": "get_modified_time fails on an added node (stale-check phase)",
    "srcm": "get_modified_time fails on a source (stale-check phase)",
}
INLINE_QUICK = ("call", "gkw", "addw", "srcm")
TEXT_QUICK = ((1, 0), (3, 1), (6, 0), (6, 5))

ASSUMPTIONS = [
    "engine: run_function_on_graph replaced by the sequential stand-in of xh/world.py (W=1, max_errors=0); validated in this run "
    "against the real threaded engine: identical CallError (function, stack_frame chain, message) for every fault kind",
    "stores: in-memory FStore (logical int times via duck-typed datetimes, injected failure = exception tagged with the operation); "
    "validated in this run against uberjob.stores.JsonFileStore failing for real (missing directory / corrupt file): same attribution",
    "the failing value of the gather kinds is a list (unhashable: TypeError inside gather_set / gather_dict); an object with a raising __hash__ is not used because CrossHair 0.0.110 swallows exceptions from __hash__ inside set()",
    "one plan of 13 user-created nodes (source, call, registry.add, 4 gather sites, unpack) built by ONE user function `_site` "
    "(source line one helper frame deeper); exactly one injected failure per run; other plan shapes are outside the claim",
    "nesting depth d in 0..DMAX (6 quick / 9 thorough) and the fault kind are small ints: CrossHair exhausts d path by path and the kind "
    "is a concrete case split (one condition per kind) - the solver's own contribution is the store state (present flag, two unbounded "
    "int times) that decides whether the faulty operation is needed at all, and the symbolic text/ints of the render conditions",
    "XH_BASE=fresh: the plan is built on a brand-new stack (new thread, tracing switched off meanwhile: everything in there is concrete) so that "
    "the real stack has exactly d+2 / d+3 frames (shallower than, equal to, deeper than the limit); XH_BASE=inline: built under tracing on top of "
    "CrossHair's own frames (always deeper than the limit) - in the replay on top of the replay script's single <module> frame",
    "the expected chain is read with sys._getframe on the creating source line itself at run time (validated against traceback.extract_stack); "
    "the limit is uberjob's MAX_TRACEBACK_DEPTH+1 (a change of the constant itself is not a violation of the property text)",
    "store times and fresh state: t0, t1 < 'now' (1e9); fresh_time is not used; retry=None; progress=None",
    "render conditions: chain length n in 0..6 concrete; names/paths: symbolic strs of length <= 2 in ONE frame (position = concrete case split), "
    "concrete text elsewhere; line ints in -2..10 (+ fixed offsets) because int->str is a C-level conversion that CrossHair realises per value; "
    "IPython frame at a symbolic position (pos conditions) or next to / at the symbolic frame (text conditions)",
    "the output gather that uberjob.run itself creates for a structured `output` is attributed to uberjob's own run() line; it never fails here and is outside the claim",
    "networkx runs untraced (concrete graphs only); CrossHair 0.0.110 + z3 decide each path",
]


def conds_attr(tier):
    cs = []
    dmax = 6 if tier == "quick" else 9
    for f in FAULTS:
        cs.append(xhrun.Cond("harness_tb", "c19_attr", {"XH_FAULT": f, "XH_BASE": "fresh", "XH_DMAX": dmax}, timeout=300,
                             label=f"c19_attr_{f}_fresh", note=KIND[f]))
    for f in (INLINE_QUICK if tier == "quick" else FAULTS):
        cs.append(xhrun.Cond("harness_tb", "c19_attr", {"XH_FAULT": f, "XH_BASE": "inline", "XH_DMAX": dmax}, timeout=300,
                             label=f"c19_attr_{f}_inline", note=KIND[f]))
    # the same creating lines reached earlier through a different caller chain (decoy plan): attribution must not depend on it
    for f in (FAULTS[:3] if tier == "quick" else FAULTS):
        cs.append(xhrun.Cond("harness_tb", "c19_attr", {"XH_FAULT": f, "XH_BASE": "fresh", "XH_DMAX": dmax, "XH_WARM": 1}, timeout=300,
                             label=f"c19_attr_{f}_fresh_warm", note=KIND[f]))
    # the registry handed to run is a copy of a copy of the one the stores were registered with (store write / read-back / source read faults)
    for f in (("addw", "addr", "srcr", "addm") if tier == "quick" else FAULTS):
        cs.append(xhrun.Cond("harness_tb", "c19_attr", {"XH_FAULT": f, "XH_BASE": "fresh", "XH_DMAX": dmax, "XH_REGCOPY": 1}, timeout=300,
                             label=f"c19_attr_{f}_fresh_registry_copy", note=KIND[f]))
    # the user's plan-building module has a name that starts like the library's ("uberjob_pipeline"): still the user's line
    for f in (FAULTS[:2] if tier == "quick" else FAULTS):
        cs.append(xhrun.Cond("harness_tb", "c19_attr", {"XH_FAULT": f, "XH_BASE": "fresh", "XH_DMAX": dmax, "XH_MODNAME": "uberjob_pipeline"}, timeout=300,
                             label=f"c19_attr_{f}_fresh_module_named_like_library", note=KIND[f]))
    if tier != "quick":
        for f in FAULTS:
            cs.append(xhrun.Cond("harness_tb", "c19_attr", {"XH_FAULT": f, "XH_BASE": "fresh", "XH_DMAX": 6, "XH_ORDER": "fifo"},
                                 timeout=300, label=f"c19_attr_{f}_fresh_fifo", note=KIND[f]))
    return cs


def conds_render(tier):
    cs = []
    for n in range(0, 7):
        cs.append(xhrun.Cond("harness_tb", "c19_render_pos", {"XH_N": n}, timeout=240, label=f"c19_render_pos_n{n}"))
    pairs = TEXT_QUICK if tier == "quick" else [(n, k) for n in range(1, 7) for k in range(n)]
    for (n, k) in pairs:
        for rel in (2, 0, 1, -1):
            if rel != 2 and not (0 <= k + rel < n):
                continue
            env = {"XH_N": n, "XH_K": k, "XH_REL": rel}
            if tier != "quick":
                env["XH_LSYM"] = 1
            cs.append(xhrun.Cond("harness_tb", "c19_render_text", env, timeout=300, label=f"c19_render_text_n{n}_k{k}_rel{rel}"))
    return cs


def validate_stubs():
    env = dict(os.environ, VERIF_SRC=C.SRC, PYTHONPATH=os.pathsep.join([os.path.join(C.VERIF, "xh"), C.VERIF]), PYTHONHASHSEED="0")
    env.pop("XH_TWIN", None)
    p = subprocess.run([C.PY, "-c", "import json, harness_tb as H; print('VALIDATE ' + json.dumps(H.validate()))"],
                       capture_output=True, text=True, env=env, timeout=300, cwd=os.path.join(C.VERIF, "xh"))
    for line in p.stdout.splitlines():
        if line.startswith("VALIDATE "):
            return json.loads(line[len("VALIDATE "):])
    return {"failures": [["validate() crashed", (p.stdout + p.stderr)[-600:]]]}


def main(pid):
    if pid != "C19":
        raise SystemExit(f"no check for {pid}")
    tier = C.tier()
    C.ensure_venv()
    ev = C.Evidence(pid, "other")
    ev.assumptions = list(ASSUMPTIONS)
    val = validate_stubs()
    conds = conds_attr(tier) + conds_render(tier)
    results = xhrun.run_conditions(pid, conds)
    code = xhrun.summarize(pid, results, ev)
    cov = ev.coverage
    cov["stub_validation"] = {k: v for k, v in val.items() if k != "failures"}
    cov["stub_validation_failures"] = val.get("failures", [])[:10]
    if val.get("failures") and code == C.EXIT_OK:
        # a stub or the oracle disagrees with the real thing on the unchanged-tree semantics: not a verdict about uberjob
        print(f"HARNESS-ERROR property={pid} stub validation failed: {val['failures'][:3]!r}", flush=True)
        code = C.EXIT_HARNESS
    cov["functions_under_test"] = [
        "uberjob._util.traceback.get_stack_frame", "uberjob._util.traceback.render_symbolic_traceback", "Plan.call", "Plan._call",
        "Plan._gather", "Plan.gather", "Plan.unpack", "Registry.add", "Registry.source", "caching._add_value_store",
        "caching._get_stale_nodes", "caching.plan_with_value_stores", "run_physical.prep_run_physical", "uberjob.run",
        "CallError.__init__/__str__",
    ]
    cov["oracle"] = ("per kind (property text): CallError.call is the failing symbolic call (identity for user nodes; the generated store read/write call "
                     "by its function + not being a user node), __cause__ is the injected tagged exception; stack_frame chain == first LIMIT frames of the "
                     "stack recorded with sys._getframe on the creating line; truncation marker iff the real stack has more than LIMIT frames; "
                     "str(CallError) lines == header, '  ... truncated' iff truncated, frames outermost first; a failure whose operation is not needed "
                     "(value up to date) must not fail the run; modified-time failures happen before any read/write")
    cov["explanation"] = ("bounded symbolic execution of the real uberjob code: CrossHair enumerates every feasible path of each harness and z3 discharges "
                          "each path condition ('Confirmed over all paths'), every condition has a vacuity twin whose reachability witness is replayed "
                          "concretely. Symbolic: store state (present flag, unbounded int times), nesting depth (0..DMAX, exhausted path by path), "
                          "render: frame text (strs <= 2), line ints, IPython position, marker. Concrete case split: fault kind, stack base, chain "
                          "length. Bounded check, not a proof for all programs.")
    cov["checker_cmd"] = "crosshair check --report_all --per_condition_timeout T harness_tb.<fn> (one process per condition), z3 backend"
    cov["trusted_base"] = ["CrossHair 0.0.110", "z3 (crosshair's)", "CPython 3.12 (frame objects, sys._getframe)", "harness stubs listed in assumptions"]
    cov["bounds"] = (f"tier {tier}: d in 0..{6 if tier == 'quick' else 9}; fault kinds {', '.join(FAULTS)}; bases fresh/inline; render n in 0..6; "
                     "conditions: " + ", ".join(r["label"] for r in results))[:3000]
    cov["rule"] = ("one obligation per (fault kind, stack base[, engine order]) and per render case (chain length, symbolic-frame position, IPython offset); "
                   "discharged = 'Confirmed over all paths' + reachable twin; distinct_nontrivial = confirmed conditions with more than one explored path")
    cov["distinct_nontrivial"] = sum(1 for r in results if r["status"] == "confirmed" and r["main"]["paths"] > 1)
    cov["kinds"] = KIND
    ev.write()
    print(f"{pid} {tier}: {cov['discharged']}/{cov['obligations']} conditions discharged, {cov['crosshair_paths']} paths, "
          f"stub validations {sum(v for v in cov['stub_validation'].values() if isinstance(v, int))}, exit {code}")
    return code
