"""E1 check for C18 (staleness depends only on instants) -- and the zone-dependent half of C12's 'modified time never decreases'."""
import itertools
import os
import sys

from lib import common as C
from lib import xhrun

K1 = "C18:aware-vs-naive-local-nonzero-offset"
K2 = "C18:naive-local-across-dst-fall-back"

STUBS = [
    "datetime model MDT (xh/harness_time.py): dt.datetime subclass carrying wall seconds / offset / fold; comparisons, tzinfo, replace(tzinfo=), "
    "astimezone() as CPython (naive = process-local, fold-aware round trip for values born from an instant, port of datetime._mktime otherwise); "
    "validated on every concrete call against REAL datetimes + a real POSIX TZ (time.tzset) + real files with os.utime mtimes (exit 12 on disagreement)",
    "process zone: one transition, local(u) = u + L0 (u < X) | u + L1 (u >= X); |L0|,|L1| <= 14 h, |L0 - L1| <= 3 h; all instants within 1e6 s of X",
    "bundled file stores: the real _file_store.get_modified_time with os.path.getmtime -> the instant and datetime.fromtimestamp -> MDT naive-local",
    "instants pairwise distinct (the property's own assumption, as in C05); whole seconds",
    "engine: sequential stand-in (world.seq_engine); networkx untraced; shapes chain2 / chain3u / join / src_chain",
    "kind 'z': timezone-aware in the process zone with ONE shared tzinfo object (as a ZoneInfo instance): ordering / equality between two such values is "
    "CPython's same-tzinfo rule (naive fields, fold ignored); mirrored with a real tzinfo subclass",
    "naive datetimes denote instants the way CPython defines it (local time, fold); a naive value a user builds by arithmetic inside a repeated hour "
    "(fold reset to 0) is outside the claim",
]


def expect_for(kinds, zone):
    aware_ = any(c in kinds for c in "az")
    mixed = aware_ and any(c in kinds for c in "fn")
    alln = not aware_
    if zone != "utc" and mixed:
        return "finding:" + K1
    if zone == "back" and alln:
        return "finding:" + K2
    return "confirm"


def conditions(tier):
    shapes = [("chain2", 2)] if tier == "quick" else [("chain2", 2), ("chain3u", 2), ("join", 3), ("src_chain", 3)]
    cs = []
    for shape, nk in shapes:
        for ks in itertools.product("fa", repeat=nk):
            for fk in "-na":
                kinds = "".join(ks) + fk
                for zone in ("utc", "fixed", "fwd", "back"):
                    cs.append(xhrun.Cond("harness_time", "c18_stale", {"XH_KINDS": kinds, "XH_ZONE": zone, "XH_TSHAPE": shape},
                                         timeout=240, label=f"c18_stale_{shape}_{kinds.replace('-', 'x')}_{zone}",
                                         expect=expect_for(kinds, zone), twin=(zone in ("utc", "back"))))
    # timezone-aware values that share ONE tzinfo object of a DST-observing zone (CPython compares / hashes those by wall clock)
    zk = ["zz-", "zzz", "zaz", "zz-"[:2] + "a"] if tier == "quick" else ["zz-", "zzz", "zaz", "zza", "azz", "za-", "az-"]
    for kinds in dict.fromkeys(zk):
        for zone in ("utc", "fixed", "fwd", "back"):
            cs.append(xhrun.Cond("harness_time", "c18_stale", {"XH_KINDS": kinds, "XH_ZONE": zone, "XH_TSHAPE": "chain2"}, timeout=240,
                                 label=f"c18_stale_chain2_{kinds.replace('-', 'x')}_{zone}", expect=expect_for(kinds, zone), twin=(zone == "back")))
    for zone in ("utc", "fixed", "fwd", "back"):
        for order_as in ("uberjob", "plain"):
            cs.append(xhrun.Cond("harness_time", "c18_mtime_order", {"XH_ZONE": zone, "XH_ORDER_AS": order_as, "XH_KINDS": "ff-"}, timeout=120,
                                 label=f"c18_mtime_order_{zone}_{order_as}", expect=("finding:" + K2) if zone == "back" else "confirm"))
    return cs


def main(pid):
    if pid != "C18":
        raise SystemExit(f"no check for {pid}")
    tier = C.tier()
    ev = C.Evidence(pid, "other")
    ev.assumptions = list(STUBS)
    conds = conditions(tier)
    results = xhrun.run_conditions(pid, conds)
    code = xhrun.summarize(pid, results, ev)
    cov = ev.coverage
    cov["functions_under_test"] = ["uberjob.run(dry_run=True)", "caching.plan_with_value_stores", "caching._get_stale_nodes", "caching._to_naive_utc_time",
                                   "stores._file_store.get_modified_time", "stores.TouchFileStore.get_modified_time", "_util.safe_max"]
    cov["oracle"] = "declarative out-of-date set (xh/world.py stale_oracle) evaluated on the true instants"
    cov["explanation"] = ("bounded symbolic execution (CrossHair/z3) of the real stale check on datetimes generated from symbolic instants, offsets and a "
                          "symbolic process zone with one transition; one condition per (shape, representation kinds, zone class); 'Confirmed over all "
                          "paths' = the stale set equals the instant-based oracle for every instant/offset/zone value. Conditions that encode exactly a "
                          "known finding class are expected to be violated (model replayed with real datetimes, real TZ, real files).")
    cov["checker_cmd"] = "crosshair check --report_all --per_condition_timeout T harness_time.<fn> (one process per condition), z3 backend"
    cov["trusted_base"] = ["CrossHair 0.0.110", "z3", "CPython 3.12", "datetime model MDT (validated against real datetime/tzset on every concrete call)"]
    cov["bounds"] = "shapes/kinds/zones: " + ", ".join(sorted({r["label"] for r in results}))[:2500]
    cov["rule"] = "one obligation per (shape, kinds, zone class); symbolic: instants, UTC offsets of aware values, L0, L1, X"
    cov["distinct_nontrivial"] = sum(1 for r in results if r["status"] in ("confirmed", "violated") and r["main"]["paths"] > 1)
    cov["known_finding_conditions"] = sum(1 for r in results if r["expect"].startswith("finding:"))
    ev.write()
    print(f"{pid} {tier}: {cov['discharged']}/{cov['obligations']} conditions discharged, {cov['crosshair_paths']} paths, exit {code}")
    return code
