"""E1 checks for C13 (run / dry_run / render never modify the caller's Plan or Registry; copies are independent) and
C14 (a dry run touches nothing and returns a faithful, self-contained physical plan).  Harnesses: xh/harness_imm.py."""
import json
import os
import subprocess
import sys

from lib import common as C
from lib import xhrun

from . import contract

sys.path.insert(0, os.path.join(C.VERIF, "xh"))

MOD = "harness_imm"

STUBS_COMMON = [
    "engine: run_function_on_graph replaced by a sequential stand-in satisfying the engine contract E2 establishes (C01/C04/C06/C07); one worker, max_errors=0",
    "stores: in-memory LStore with a logical clock (write => strictly larger time) and an operation counter; duck-typed datetimes carrying ints (xh/world.py)",
    "networkx runs untraced (concrete graphs only); CrossHair 0.0.110 + z3 decide each path",
    "pre-state modified times and fresh_time pairwise distinct and earlier than 'now' (logical clock start 10^9)",
    "plan sizes: the listed catalog shapes (<= 4 logical nodes, <= ~14 physical nodes); larger plans are outside the claim",
    "progress=None, max_workers=1, retry default, scheduler default on every run() call",
    "call functions are pure term constructors (name, *args); the generator of a dependent source rewrites its source store",
]
STUBS_C13 = [
    "structural snapshot (harness_imm.snap_plan / snap_reg): Plan object, plan.graph object, plan._scope, node objects in iteration order with type, scope, fn / value / stack_frame identity and attribute dict, edges in iteration order with key and data, per-node predecessor order, graph attributes; registry.mapping object and per entry in order node, RegistryValue object, value_store, is_source, stack_frame identities",
    "write guard: instance attributes shadow add_node add_nodes_from remove_node remove_nodes_from add_edge add_edges_from add_weighted_edges_from remove_edge remove_edges_from update clear clear_edges of the caller's graph object, call _call lit add_dependency unpack scope of the caller's Plan object, add source of the caller's Registry object (record + raise); additionally the graph's storage dicts (_node, _adj/_succ, _pred, nested adjacency/key/attribute dicts, graph.graph) and registry.mapping are replaced, before the snapshot, by dict subclasses with identical content that record + raise on mutation while armed (so the object handed to uberjob is a Plan whose graph stores its data in dict subclasses: assumed equivalent, validated by the self-check: same run result, same structure)",
    "not guarded: attribute writes on Node / RegistryValue objects (slots; covered by the snapshot only), networkx's lazily cached view objects in graph.__dict__ (nodes, edges, adj, ... -- an idempotent cache, not counted as a write), ValueStore objects (using them is the run's job)",
    "logical nodes carry non-empty scopes assigned directly (node.scope = ...) after W.build; validated equal to what `with plan.scope(...)` produces; render / copy plans use the scope API itself",
    "injected failure: the k-th store/call operation raises (Exception subclass); stale-check failures: k symbolic among the first R operations (R = number of registered nodes); run-phase failures: k case-split per condition up to the measured maximal operation count of the shape",
    "render: format='raw' (nxv returns the GraphViz source; no dot process); nxv.render runs untraced; predicate in {None, calls-only, nothing}; level in {None,0,1,2,3}; argument forms plan / plan.graph / (plan, node); three plans (flat, nested scopes with registry and source, dry-run physical plan)",
    "copy: mutation of one side by one public-API operation chosen by a symbolic selector among 10 (call, lit, add_dependency, gather, unpack, registry.add on a new node, registry.source, scoped call, RegistryValue field assignment as in tests/test_registry.py::test_registry_copy, registry.add on an existing node) with symbolic operand indices; both directions; Plan.copy/Registry.copy and copy.copy",
    "concurrent runs of one plan are NOT explored: they are argued from the guard result (run performs no write on the caller's Plan / graph / Registry objects, hence concurrent runs share only read-only state) -- this leaves the thread-safety of concurrent networkx reads and of the stores outside the claim",
]
STUBS_C14 = [
    "two worlds A, B with separate LStore objects in the same symbolic state; stored values adversarial (from-scratch value exactly where the state looks up to date, a garbage term elsewhere); LStore.read normalises (returns ('norm', v)) so that a value read back differs from the computed one",
    "'executing all nodes of the plan by itself': uberjob.run(physical_plan, output=[output_node, list(all nodes)]) without registry (the output structure keeps every node alive through pruning), as in seeded/C14_m1/demo.py",
    "event comparison is per kind (call / read / write) and node as multisets, not as sequences; final store contents = present flag and value, plus 'rewritten or not'; modified-time values are not compared (the two executions may order independent writes differently)",
    "when a needed value is missing and nothing rebuilds it (missing pure source) both executions must fail with that store's error; events are then not compared (the failure point depends on the order)",
    "transform_physical variant: a callback that appends a marker call wrapping the output node (or a free-standing marker call when no output is requested)",
]


def _shape_env(s, **kw):
    env = {"XH_SHAPE": json.dumps(s.to_json())}
    env.update({k: v for k, v in kw.items()})
    return env


def _splits(s):
    """Case split of the present flags for the heavy shapes (4 registered nodes): the first two flags concrete."""
    if sum(1 for r in s.registered if r) >= 4:
        return ["00??", "01??", "10??", "11??"]
    return [None]


def _senv(s, split, **kw):
    env = _shape_env(s, **kw)
    if split:
        env["XH_PRESENT"] = split
    return env


def _sfx(split):
    return f"_P{split.replace('?', 'x')}" if split else ""


def _py(code, timeout=300):
    env = dict(os.environ, VERIF_SRC=C.SRC, PYTHONHASHSEED="0")
    env["PYTHONPATH"] = os.pathsep.join([xhrun.XHDIR, C.VERIF])
    return subprocess.run([C.PY, "-c", code], capture_output=True, text=True, env=env, timeout=timeout)


def max_ops(shape, out_kind):
    """Operation count of the longest run of this shape (everything stored missing): measured concretely on the real code."""
    code = f"""
import os, sys, json, itertools
os.environ['XH_SHAPE'] = {json.dumps(json.dumps(shape.to_json()))}
os.environ['XH_OUT'] = {out_kind!r}
import harness_imm as H, world as W, uberjob
sh = H.SHAPE
best = 0
for P in itertools.product([False, True], repeat=sh.n):
    for perm in ([10, 20, 30, 40], [40, 30, 20, 10]):
        P_ = [P[j] or (sh.roles[j] == 'src' and not sh.preds[j]) for j in range(sh.n)]
        w = W.World(W.NOW); b = W.build(sh, w, P_, perm[:sh.n])
        try: uberjob.run(b.plan, registry=b.reg, output=H.output_spec(b, sh, H.OUT), progress=None, max_workers=1)
        except Exception: pass
        best = max(best, w.ops)
print(best)
"""
    p = _py(code)
    return int(p.stdout.strip().splitlines()[-1])


def selfcheck():
    p = _py("import harness_imm as H; print(H.selfcheck())")
    if p.returncode != 0:
        print(p.stdout[-500:], p.stderr[-1500:])
        return None
    return int(p.stdout.strip().splitlines()[-1])


def conds_c13(tier):
    import shapes

    cat = shapes.QUICK if tier == "quick" else shapes.THOROUGH
    by = shapes.BY_NAME
    cs, info = [], {}
    # A. no injected failure: success / failing run on a missing pure source / dry run
    for s in cat:
        outs = ["shape"]
        if tier == "thorough" or s.name in ("chain_sss", "fork_unstored_mid"):
            outs.append("struct")
        if (tier == "thorough" and s.out is not None) or s.name == "chain_sss":
            outs.append("none")
        for o in outs:
            for dry in ("0", "1"):
                cs.append(xhrun.Cond(MOD, "c13_run_reg", _shape_env(s, XH_OUT=o, XH_DRY=dry, XH_CUTMODE="none"),
                                     timeout=240, label=f"c13_run_{s.name}_out-{o}_dry{dry}"))
    for s in (cat if tier == "thorough" else [by["chain_sss"], by["fork_unstored_mid"]]):
        for dry in ("0", "1"):
            cs.append(xhrun.Cond(MOD, "c13_run_reg", _shape_env(s, XH_OUT="shape", XH_DRY=dry, XH_CUTMODE="none", XH_EXTRA=1),
                                 timeout=240, label=f"c13_run_{s.name}_foreign_registry_entry_dry{dry}"))
    # B. failure in the stale check at a symbolic operation index
    for s in cat:
        for dry in ("0", "1"):
            for sp in _splits(s):
                cs.append(xhrun.Cond(MOD, "c13_run_reg", _senv(s, sp, XH_DRY=dry, XH_CUTMODE="stale"),
                                     timeout=240, label=f"c13_stalefail_{s.name}_dry{dry}{_sfx(sp)}"))
    # C. failure in the run phase: case split over the operation index
    names = ["chain_sss", "fork_unstored_mid"] if tier == "quick" else [s.name for s in cat]
    for nm in names:
        s = by[nm]
        variants = [("shape", "raise")]
        if tier == "thorough" and nm in ("chain_sss", "fork_unstored_mid", "dep_source"):
            variants += [("struct", "raise"), ("shape", "die")]
        for o, kind in variants:
            m = max_ops(s, o)
            info[f"{nm}/{o}/{kind}"] = m
            # indices below the number of registered nodes are the stale-check queries (B); when a path has fewer
            # queries, B (dry=0) follows the index into the run phase as well
            for k in range(1, m):
                cs.append(xhrun.Cond(MOD, "c13_run_reg",
                                     _shape_env(s, XH_OUT=o, XH_CUTMODE="fixed", XH_CUT=k, XH_CUT_KIND=kind),
                                     timeout=300, label=f"c13_runfail_{nm}_out-{o}_{kind}_k{k}",
                                     twin=(k % 3 == 0 or k == m - 1)))
    # D. no registry / EMPTY registry, output None / node / structure, dry run or not, failing call at a symbolic index
    for s in cat:
        cs.append(xhrun.Cond(MOD, "c13_run_noreg", _shape_env(s), timeout=300, label=f"c13_noreg_{s.name}"))
    # E. render
    for rp in ("flat", "scoped", "physical"):
        cs.append(xhrun.Cond(MOD, "c13_render", {"XH_RPLAN": rp}, timeout=400, label=f"c13_render_{rp}"))
    # F. copies
    cnames = ["chain_src_s_u_s", "dep_edge"] if tier == "quick" else [s.name for s in cat]
    for nm in cnames:
        cs.append(xhrun.Cond(MOD, "c13_copy", _shape_env(by[nm]), timeout=400, label=f"c13_copy_{nm}"))
    # F. a plan returned by a dry run is a caller's plan too: running it (C14's two-world harness) must leave it unchanged
    for nm in (("chain_sss", "fork_unstored_mid") if tier == "quick" else ("chain_sss", "fork_unstored_mid", "dep_edge", "out_unstored")):
        s_ = by[nm]
        for sp in _splits(s_):
            cs.append(xhrun.Cond(MOD, "c14_dry", _senv(s_, sp, XH_OUT="shape", XH_TP="0"), timeout=300, label=f"c13_dryplan_unchanged_{nm}{_sfx(sp)}"))
    return cs, info


def conds_c14(tier):
    import shapes

    cat = shapes.QUICK if tier == "quick" else shapes.THOROUGH
    cs = []
    rich = ("chain_sss", "fork_unstored_mid", "dep_source")
    for s in cat:
        variants = [("shape", "0")]
        if tier == "thorough" or s.name in ("chain_sss", "fork_unstored_mid", "dep_edge"):
            variants.append(("shape", "1"))
        if s.name in ("chain_sss", "out_unstored") or (tier == "thorough" and s.name in rich + ("dep_edge",)):
            variants.append(("struct", "0"))
        if tier == "thorough":
            if s.out is not None:
                variants.append(("none", "0"))
            if s.name in rich:
                variants += [("struct", "1"), ("none", "1")]
        if s.name == "chain_sss":
            variants += [("shape", "2"), ("const", "0"), ("inner0", "0"), ("inner1", "0")]
        elif tier == "thorough" and s.n >= 2:
            variants += [("inner0", "0")]
        if s.name in ("fork_unstored_mid", "out_unstored"):
            variants += [("const", "0")] + ([("struct", "2")] if tier == "thorough" else [])
        for o, tp in variants:
            for sp in _splits(s):
                cs.append(xhrun.Cond(MOD, "c14_dry", _senv(s, sp, XH_OUT=o, XH_TP=tp), timeout=300,
                                     label=f"c14_dry_{s.name}_out-{o}_tp{tp}{_sfx(sp)}"))
        if tier == "thorough" or s.name in ("join_s_s_into_s", "fork_unstored_mid"):
            # the dry run's stale check and the real run's scheduled in different orders (independent branches examined the other way round)
            for sp in _splits(s):
                cs.append(xhrun.Cond(MOD, "c14_dry", _senv(s, sp, XH_OUT="shape", XH_TP="0", XH_SWAP=1), timeout=300,
                                     label=f"c14_dry_{s.name}_out-shape_tp0_swapped_order{_sfx(sp)}"))
        cs.append(xhrun.Cond(MOD, "c14_noreg", _shape_env(s), timeout=240, label=f"c14_noreg_{s.name}"))
    return cs


def main(pid):
    tier = C.tier()
    if tier not in ("quick", "thorough"):
        tier = "quick"
    ev = C.Evidence(pid, "other")
    cov = ev.coverage
    n_valid = selfcheck()
    if n_valid is None:
        print(f"HARNESS-ERROR property={pid} self-check of the snapshot / guard / stubs failed on {C.SRC}")
        return C.EXIT_HARNESS
    if pid == "C13":
        conds, info = conds_c13(tier)
        ev.assumptions = STUBS_COMMON + STUBS_C13
        cov["max_ops_per_shape"] = info
        cov["functions_under_test"] = ["uberjob.run", "uberjob._transformations.get_mutable_plan", "caching.plan_with_value_stores",
                                       "caching._get_stale_nodes", "caching._add_value_store", "pruning.prune_plan",
                                       "pruning.prune_source_literals", "run_physical.run_physical", "Plan.gather",
                                       "uberjob.render (uberjob._rendering.render, default_style)", "Plan.copy", "Plan.__copy__",
                                       "Registry.copy", "Registry.__copy__", "Plan.call/lit/add_dependency/gather/unpack/scope",
                                       "Registry.add/source"]
        cov["oracle"] = ("before/after structural snapshot of the caller's Plan and Registry compared by object identity, plus a write guard "
                         "that records and raises on any mutating call / storage-dict write on exactly those objects")
        cov["rule"] = ("one obligation per (harness, shape, registry kind, output kind, dry flag, failure class / run-phase cut index | render plan | copy shape); "
                       "symbolic per obligation: present flags, modified times, fresh_time (unbounded ints), stale-check failure index, "
                       "or (no registry) empty-vs-None registry, output selector, dry flag, failing-call index, or render options, or copy operation + operands; "
                       "discharged = CrossHair 'Confirmed over all paths' + reachable vacuity twin whose witness replays to True without CrossHair")
    elif pid == "C14":
        conds = conds_c14(tier)
        ev.assumptions = STUBS_COMMON + STUBS_C14
        cov["functions_under_test"] = ["uberjob.run (dry_run=True, transform_physical)", "caching.plan_with_value_stores",
                                       "caching._get_stale_nodes", "caching._add_value_store", "pruning.prune_plan",
                                       "run_physical.run_physical / prep_run_physical", "Plan.gather"]
        cov["oracle"] = ("two-world comparison: dry run on A logs only modified-time queries and changes no store; the returned plan executed by "
                         "itself on A vs the real run on B: equal call/read/write multisets, final store contents, output; output node is a node of the returned plan")
        cov["rule"] = ("one obligation per (shape, output kind, transform_physical on/off) with symbolic present flags, modified times, fresh_time; plus one "
                       "per shape without registry (symbolic output selector, transform flag); discharged = 'Confirmed over all paths' + reachable twin")
    else:
        raise SystemExit(f"no check for {pid}")
    cfut = contract.start(pid) if pid == "C14" else None
    results = xhrun.run_conditions(pid, conds)
    code = xhrun.summarize(pid, results, ev)
    if cfut is not None:
        code = contract.finish(pid, cfut, ev, code)
    cov["stub_validations"] = n_valid
    cov["explanation"] = ("bounded symbolic execution of the real uberjob code: CrossHair enumerates every feasible path of the harness for the given "
                          "case (shape, output kind, cut index ...) and z3 discharges each path condition ('Confirmed over all paths'); symbolic values "
                          "(times, flags, failure index, option selectors) are unbounded / range over their whole stated domain; the plan shape is the "
                          "stated bound. Not a proof for all plans.")
    cov["checker_cmd"] = f"crosshair check --report_all --per_condition_timeout T {MOD}.<fn> (one process per condition), z3 backend"
    cov["trusted_base"] = ["CrossHair 0.0.110", "z3 (crosshair's)", "CPython 3.12", "networkx 2.8.8 and nxv 0.1.3 run untraced",
                           "harness stubs / instruments listed in assumptions (self-checked each run: stub_validations)"]
    cov["bounds"] = ("catalog " + tier + ": " + ", ".join(sorted({r["label"] for r in results})))[:3000]
    cov["distinct_nontrivial"] = sum(1 for r in results if r["status"] == "confirmed" and r["main"]["paths"] > 1)
    cov["timings_s"] = {r["label"]: [r["main"]["seconds"], r["main"]["paths"]] for r in results}
    ev.write()
    print(f"{pid} {tier}: {cov['discharged']}/{cov['obligations']} conditions discharged, {cov['crosshair_paths']} paths, "
          f"{n_valid} stub validations, exit {code}")
    return code
