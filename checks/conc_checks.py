"""E2 checks (C01 C04 C06 C07 C10 C17 ...): BMC of the real run_function_on_graph source, per-instance subprocesses,
model replay on real threads before any VIOLATION is printed; plus the E1 lemmas that tie the engine model to the code."""
import json
import os
import subprocess
import sys
from concurrent.futures import ThreadPoolExecutor

from lib import common as C
from lib import xhrun

BITS = {
    "C01": ["c01_start_before_dep"],
    "C04": ["c04_twice", "c04_not_all_ran", "fn_on_sentinel"],
    "C06": ["c06_downstream_of_failure", "c06_failure_swallowed", "c06_spurious_error", "c06_wrong_error", "c06_not_first_failure"],
    "C07": ["c07_thread_alive_at_return", "c07_inflight_at_return", "c07_start_after_return", "c07_running_after_return",
            "c07_cycle_not_reported", "c07_cycle_ran_something", "c07_deadlock"],
    "C10": ["c10_inflight_gt_w", "c10_fn_under_lock", "c10_too_many_failures", "c10_none_not_exhaustive", "c10_w1_failure_count",
            "c04_twice"],  # with retry = 1 every call / modified-time query is attempted at most once: a node processed twice breaks that
    "C17": ["c17_start_after_interrupt", "c17_interrupt_swallowed", "c17_interrupt_masked", "c07_thread_alive_at_return",
            "c07_inflight_at_return", "c07_deadlock", "c07_running_after_return", "c07_start_after_return"],
}

G = {
    "join3": (3, [[0, 2], [1, 2]]),
    "chain3": (3, [[0, 1], [1, 2]]),
    "fork3": (3, [[0, 1], [0, 2]]),
    "indep2": (2, []),
    "single1": (1, []),
    "pair": (2, [[0, 1]]),
    "diamond4": (4, [[0, 1], [0, 2], [1, 3], [2, 3]]),
    "fanin4": (4, [[0, 3], [1, 3], [2, 3]]),
    "zipper4": (4, [[0, 2], [1, 2], [1, 3]]),
    # two joins in a row: a node enqueued twice by a lost update on the first join's counter releases the second join early
    "dbljoin5": (5, [[0, 2], [1, 2], [2, 4], [3, 4]]),
}


def inst(name, gname, W, K, opts=None, witnesses=("all_ran", "failure_raised"), sym=False, N=None):
    n, edges = (N, None) if sym else G[gname]
    return {"name": name, "N": n, "W": W, "graph": edges, "K": K, "opts": opts or {}, "witnesses": list(witnesses),
            "sample_witness": witnesses[0] if witnesses else None, "max_k_bumps": 2}


def catalog(pid, tier):
    q = [
        inst("join3_w2", "join3", 2, 30),
        inst("chain3_w2", "chain3", 2, 30),
        inst("fork3_w2", "fork3", 2, 30),
        inst("indep2_w3", "indep2", 3, 30, witnesses=("all_ran", "failure_raised", "parallel")),
        inst("sym2_w2", None, 2, 26, sym=True, N=2),
        inst("sym3_w1", None, 1, 30, sym=True, N=3),
    ]
    t = q + [
        # (sym3_w2 -- every 3-node DAG with two workers -- did not reach a verdict within an hour on the final encoding: dropped from the
        #  tier rather than left as a standing exit 3; DESIGN 11.12)
        inst("join3_w3", "join3", 3, 36),
        inst("diamond4_w2", "diamond4", 2, 38),
        inst("fanin4_w2", "fanin4", 2, 38),
        inst("zipper4_w2", "zipper4", 2, 38),
        inst("join3_w2_donefirst", "join3", 2, 30, opts={"done_first": True}),
    ]
    cyc = [inst("cyc_sym2_w1", None, 1, 20, opts={"cyclic": True}, witnesses=("cycle_rejected", "all_ran"), sym=True, N=2),
           inst("cyc_sym3_w1", None, 1, 30, opts={"cyclic": True}, witnesses=("cycle_rejected",), sym=True, N=3),
           inst("cyc_sym3_w2", None, 2, 30, opts={"cyclic": True}, witnesses=("cycle_rejected",), sym=True, N=3)]
    if pid == "C01":
        # the smallest graph on which a double enqueue becomes an ORDERING violation needs 5 nodes; restricted to runs without failures
        # (the property does not involve them) to keep it in the quick budget
        five = inst("dbljoin5_w2_allok", "dbljoin5", 2, 44, opts={"all_ok": True}, witnesses=("all_ran",))
        q = q + [five]
        t = t + [five]  # (the unrestricted dbljoin5_w2 -- failures allowed -- did not reach a verdict within an hour: dropped, DESIGN 11.12)
    if pid == "C07":
        # "it never hangs" also when the operating system refuses a worker thread (Thread.start raises RuntimeError, once, at any worker):
        # run must raise, with every thread it did start joined -- not wait on a queue that nobody serves
        sf = inst("startfail_pair_w2", "pair", 2, 34, opts={"start_may_fail": True}, witnesses=("start_refused",))
        sf["bits_override"] = [b for b in BITS["C07"] if b.startswith("c07_") and "cycle" not in b]
        q = q + cyc[:2] + [sf]
        t = t + cyc + [sf, dict(inst("startfail_indep2_w3", "indep2", 3, 40, opts={"start_may_fail": True}, witnesses=("start_refused",)), bits_override=sf["bits_override"])]
    if pid == "C17":
        # Interrupt positions are split in two classes.  "startup" = the coordinator has just started a worker thread and is about to
        # record it (workers.append): the known finding C17:interrupt-between-thread-start-and-append lives there.  Everything else
        # must be clean for ALL bits; at the startup positions every bit except the finding's must be clean; the finding's own bit
        # at exactly those positions is the instance "*_startupleak" (expected counterexample -> KNOWN-FINDING; clean = finding gone).
        def trio(name, gname, K, extra=None, sym=False, N=None, W=2):
            o = dict({"interrupt": True}, **(extra or {}))
            a = inst(name, gname, W, K, opts=dict(o, int_where="not_startup"), witnesses=("interrupted",), sym=sym, N=N)
            b_ = inst(name + "_startup", gname, W, K, opts=dict(o, int_where="only_startup"), witnesses=("interrupted",), sym=sym, N=N)
            leak = ["c07_thread_alive_at_return", "c07_inflight_at_return", "c07_running_after_return"]  # all: "the unrecorded worker is not joined"
            b_["bits_override"] = [x for x in BITS["C17"] if x not in leak]
            c = inst(name + "_startupleak", gname, W, K, opts=dict(o, int_where="only_startup"), witnesses=(), sym=sym, N=N)
            c["bits_override"] = leak
            c["finding_key"] = "C17:interrupt-between-thread-start-and-append"
            return [a, b_, c]

        # quick: two workers on the dependent pair (all three position classes); one worker on two independent nodes (a call in flight, another
        # still queued: what a shutdown that forgets the stop flag needs), with any-item and DONE-first queues.  Two workers there: thorough.
        q = (trio("int_pair_w2", "pair", 34) + trio("int_indep2_w1", "indep2", 30, W=1)[:1]
             + trio("int_indep2_w1_donefirst", "indep2", 30, {"done_first": True}, W=1)[:1])
        t = (trio("int_pair_w2", "pair", 34) + trio("int_indep2_w2", "indep2", 34) + trio("int_indep2_w2_donefirst", "indep2", 34, {"done_first": True})
             + trio("int_join3_w1", "join3", 36, W=1)[:1] + trio("int_sym2_w2", None, 34, sym=True, N=2))
        # (the two-worker join under interrupts, int_join3_w2, does not reach a verdict within the 3600 s instance limit: dropped, stated in DESIGN 11.12)
    out = q if tier == "quick" else t
    if pid == "C10":
        for s in out:
            if s["graph"] is not None and "parallel" not in s["witnesses"]:
                s["witnesses"].append("parallel")
    return out


def run_instance(spec):
    base = {"name": spec["name"], "N": spec["N"], "W": spec["W"], "queries": []}
    limit = int(os.environ.get("E2_INSTANCE_TIMEOUT", "900" if C.tier() == "quick" else "5400"))
    try:
        p = subprocess.run([C.PY, os.path.join(C.VERIF, "conc", "instance.py"), json.dumps(spec)], capture_output=True, text=True, timeout=limit)
        line = p.stdout.strip().splitlines()[-1] if p.stdout.strip() else ""
        return json.loads(line)
    except subprocess.TimeoutExpired:
        return dict(base, status="timeout", detail=f"no verdict within {limit} s (inconclusive, never a pass)")
    except Exception as e:
        return dict(base, status="crash", detail=f"{e}: {p.stderr[-500:] if 'p' in dir() else ''}")


def write_replay(pid, res, trace_key="trace", model_key="model", suffix=""):
    d = C.replay_dir(pid)
    path = os.path.join(d, f"{res['name']}{suffix}.json")
    rp = {"src": C.SRC, "model": res[model_key], "trace": res[trace_key], "bad": res.get("bad", []) if not suffix else []}
    rp.update(res.get("replay_info", {}))
    json.dump(rp, open(path, "w"), indent=1)
    return path


def run_replay(path):
    try:
        p = subprocess.run([C.PY, os.path.join(C.VERIF, "conc", "replay.py"), path], capture_output=True, text=True, timeout=120)
        try:
            out = json.loads(p.stdout)
        except Exception:
            out = {"raw": (p.stdout + p.stderr)[-800:]}
        return p.returncode, out
    except subprocess.TimeoutExpired:
        return 124, {"raw": "replay timeout"}


def main(pid):
    tier = C.tier()
    C.ensure_venv()
    ev = C.Evidence(pid, "model_checking")
    specs = catalog(pid, tier)
    for s in specs:
        s["src"] = C.SRC
        s["bits"] = s.pop("bits_override", None) or BITS[pid]
    jobs = int(os.environ.get("VERIF_JOBS", "16"))
    with ThreadPoolExecutor(max_workers=min(jobs, len(specs))) as ex:
        results = list(ex.map(run_instance, specs))
    findings = C.finding_keys(pid)
    code = C.EXIT_OK
    nq = sum(len(r["queries"]) for r in results)
    solver_s = sum(q["solver_s"] for r in results for q in r["queries"])
    validated = 0
    samples = []
    harness_err = []
    known_hits = []
    for r in results:
        st = r["status"]
        if st == "ok":
            # translator validation: drive the real threads through the witness schedule; the real event log must show no bad bit
            if r.get("sample_trace"):
                rp = write_replay(pid, r, "sample_trace", "sample_model", "_witness")
                rc, out = run_replay(rp)
                if rc == 0:
                    validated += 1
                else:
                    harness_err.append(f"{r['name']}: witness schedule did not replay cleanly on the real code (rc {rc}): {json.dumps(out)[:400]}")
            samples.append({"instance": r["name"], "N": r["N"], "W": r["W"], "K": r.get("K"), "queries": r["queries"],
                            "sample_schedule": [(t["thread"], [g["g"] for g in t.get("gates", [])]) for t in (r.get("sample_trace") or [])[:12]]})
        elif st == "counterexample":
            rp = write_replay(pid, r)
            rc, out = run_replay(rp)
            if rc == 10:
                key = [s for s in specs if s["name"] == r["name"]][0].get("finding_key")
                if key and key in findings:
                    C.known_finding(pid, f"{key}: {findings[key].get('what', '')} [instance {r['name']}: bad bits {r['bad']}, observed on real threads {out.get('bad_observed')}; replay {rp}]")
                    known_hits.append(key)
                else:
                    C.violation(pid, rp)
                    print(f"  instance {r['name']}: bad bits {r['bad']}; observed on real threads: {out.get('bad_observed')}")
                    ev.violations += 1
                    code = C.EXIT_VIOLATION
            else:
                harness_err.append(f"{r['name']}: model {r['bad']} did not reproduce on the real code (replay rc {rc}): {json.dumps(out)[:600]}")
            samples.append({"instance": r["name"], "status": st, "bad": r.get("bad"), "model": r.get("model"), "queries": r["queries"]})
        elif st == "parallelism_lost" and pid == "C10":
            path = os.path.join(C.replay_dir(pid), f"{r['name']}_parallel.json")
            json.dump({"src": C.SRC, "N": r["N"], "W": r["W"], "edges": [s for s in specs if s["name"] == r["name"]][0]["graph"], "want": min(r["W"], r["width"])}, open(path, "w"))
            p = subprocess.run([C.PY, os.path.join(C.VERIF, "conc", "replay_parallel.py"), path], capture_output=True, text=True, timeout=120)
            if p.returncode == 10:
                C.violation(pid, path)
                print(f"  instance {r['name']}: {r.get('detail')}; real run: {p.stdout.strip()[-200:]}")
                ev.violations += 1
                code = C.EXIT_VIOLATION
            else:
                harness_err.append(f"{r['name']}: parallelism_lost did not reproduce: {p.stdout[-300:]}{p.stderr[-300:]}")
            samples.append({"instance": r["name"], "status": st, "detail": r.get("detail"), "queries": r.get("queries")})
        else:
            harness_err.append(f"{r['name']}: {st} {r.get('detail', '')}")
            samples.append({"instance": r["name"], "status": st, "detail": r.get("detail"), "queries": r.get("queries")})
    # E1 lemmas the model leans on
    lem = lemma_conditions(pid, tier)
    if lem:
        lres = xhrun.run_conditions(pid, lem)
        lcode = xhrun.summarize(pid, lres, ev)
        if lcode == C.EXIT_VIOLATION:
            code = C.EXIT_VIOLATION
        elif lcode != C.EXIT_OK:
            harness_err.append("E1 lemma condition(s) inconclusive")
    if harness_err and code == C.EXIT_OK:
        code = C.EXIT_HARNESS
    for h in harness_err:
        print(f"HARNESS-ERROR property={pid} {h}", flush=True)
    cov = ev.coverage
    ok_inst = [r for r in results if r["status"] == "ok"]
    cov["states"] = max(1, sum(r.get("K", 0) * (r["W"] + 1) for r in ok_inst))
    cov["transitions"] = max(1, sum(r.get("K", 0) * sum(r.get("step_paths", {}).values()) for r in ok_inst))
    cov["states_transitions_meaning"] = ("symbolic BMC: 'states' = unrolled (step, thread) positions, 'transitions' = step paths instantiated; "
                                          "the solver covers every schedule/graph/outcome assignment of each instance")
    cov["traces_validated_against_impl"] = validated
    cov["samples"] = samples + cov.get("samples", [])
    cov["evaluations"] = nq + cov.get("evaluations", 0)
    cov["distinct_nontrivial"] = sum(1 for r in results for q in r["queries"] if q["result"] in ("sat", "unsat")) + cov.get("distinct_nontrivial", 0)
    cov["queries_discharged"] = nq
    cov["solver_s"] = round(solver_s, 1)
    cov["functions_encoded"] = sorted({f for r in results for f in r.get("functions_encoded", [])})
    cov["fused_by_lockset"] = results[0].get("fused") if results else None
    cov["bounds"] = [f"{r['name']}: N={r.get('N')} W={r.get('W')} K={r.get('K')} (K checked as completeness threshold by the unwinding query)" for r in results]
    cov["bad_bits_checked"] = BITS[pid]
    cov["known_findings_hit"] = sorted(set(known_hits))
    cov["exhaustive"] = False
    ev.assumptions = [
        "environment model (conc/encode.py docstring): queue.Queue contract with ANY queued item returned by get, Lock, Thread start/join, "
        "networkx successors/predecessor_count contract, prepare_nodes closed form, fn = start/end events with symbolic outcome",
        "Lipton reduction: lock-protected accesses and thread-local instructions fused (recomputed from the source each run; "
        "reduction_assumption bad bit guards the coordinator-side exemption); fn start fused with the preceding `stop` test",
        "bounds: the listed (N, W) instances only; graphs with more nodes / more workers are outside the claim",
        "z3 bit-vector width 4 for counters (overflow is a bad bit)",
        "constructs the pinned source does not use but a changed one may: lists of nodes = sequences of <= 6 elements with live iteration (longer: "
        "model-limit query -> the instance is inconclusive, never a pass); a timed / non-blocking queue.get times out at most once per run, only while "
        "the queue is empty; calls on module-level objects the model does not know (logging, time) have no effect on the engine state (listed per instance)",
        "assert_acyclic contract lemma (E1, xh/harness_topo.py c07_kahn) and prepare_nodes closed form incl. 'nothing leaks from an earlier call' "
        "(xh/harness_queue.py c04_prepare) are part of every engine check; C07 also: a refused Thread.start (RuntimeError, at most once; instance "
        "startfail_*: termination bits only) and 'reporting a failure terminates' (c07_render: <= 3 recorded frames, budget of 200 frame reads)",
        "queue contract lemma (E1, xh/harness_queue.py): the real RandomQueue / PriorityQueue / simple queue under CrossHair with a stubbed `random` "
        "(randrange within its documented range, shuffle = a symbolic permutation), symbolic items/priorities, operation strings of <= 8 put/get",
        "retry lemma (E1, xh/harness_retry.py; C10 only): create_retry(n) with symbolic n <= 4 and a callable failing on its first j <= 5 attempts; "
        "uberjob.run(retry=n) on a stored chain where one operation kind (call / read / write / get_modified_time) fails on its first j attempts; sequential engine",
        "CallError glue (E1, xh/harness_err.py; C06 only): run on 3-call plans with symbolic failing calls / exception kind / output / failing store operation: "
        "CallError.call and __cause__ identities, nothing downstream started; sequential engine",
        "cycle lemma (E1, xh/harness_topo.py; C07 only): the real topological_sort / assert_acyclic on symbolic digraphs (N<=4, self loops, parallel edges) "
        "vs the harness' transitive closure; uberjob.run on 3-call plans with symbolic dependency edges in any direction, with / without a registry",
        "pruning lemma (E1, xh/harness_prune.py; C01/C04 only): plans of 4-5 nodes (calls / literals by the condition's kind string) with symbolic edges and "
        "argument-vs-dependency kinds; the engine graph of the real dry run + prune_source_literals vs the harness' transitive closure of the logical plan",
    ]
    ev.write()
    print(f"{pid} {tier}: {len(ok_inst)}/{len(results)} instances clean, {nq} queries, solver {solver_s:.0f}s, {validated} schedules replayed on real threads, exit {code}")
    return code


def lemma_conditions(pid, tier):
    """E1 lemmas the engine model leans on: the real queue classes honour the queue.Queue contract the model assumes
    (xh/harness_queue.py).  C04 carries the full set; the other engine checks a short one."""
    if pid not in ("C01", "C04", "C06", "C07", "C10", "C17"):
        return []
    full = pid == "C04" or tier == "thorough"
    combos = [(2, "ppgg"), (1, "pgpg"), (3, "gpgg")] if full else [(2, "ppgg")]
    if pid == "C04" and tier == "thorough":
        combos += [(3, "ppppgggg"), (0, "pppgpg"), (2, "pgppgg")]
    cs = []
    for kind in ("random", "priority", "simple"):
        for ninit, ops in combos:
            cs.append(xhrun.Cond("harness_queue", "c04_queue", {"XH_Q": kind, "XH_NINIT": ninit, "XH_OPS": ops}, timeout=300,
                                 label=f"queue_contract_{kind}_init{ninit}_{ops}"))
    cs.append(xhrun.Cond("harness_queue", "c04_create_queue", {}, timeout=300, label="queue_contract_create_queue"))
    cs.append(xhrun.Cond("harness_queue", "c04_prepare", {}, timeout=900, label="prepare_nodes_closed_form"))
    if pid != "C07":
        # the model's `assert_acyclic(graph)` is a contract call: raises iff the graph has a cycle (C07 carries the full set below)
        cs.append(xhrun.Cond("harness_topo", "c07_kahn", {"XH_TN": 3, "XH_SELF": 1, "XH_MULTI": 0}, timeout=1500, label="assert_acyclic_contract_tn3_self1"))
    if pid == "C06":
        # the glue above the engine: process -> NodeError -> run -> CallError (call identity, cause identity, nothing downstream)
        for sh in (("chain3", "join3") if tier == "quick" else ("chain3", "fork3", "join3", "indep3")):
            for r in (0, 1):
                cs.append(xhrun.Cond("harness_err", "c06_error", {"XH_ESHAPE": sh, "XH_EREG": r}, timeout=600, label=f"callerror_{sh}_reg{r}"))
        cs.append(xhrun.Cond("harness_err", "c06_error", {"XH_ESHAPE": "chain3", "XH_EREG": 0, "XH_EHAND": 1}, timeout=600, label="callerror_chain3_handbuilt_call"))
        cs.append(xhrun.Cond("harness_err", "c06_error", {"XH_ESHAPE": "join3", "XH_EREG": 0, "XH_EBADREPR": 1}, timeout=600, label="callerror_join3_raising_repr"))
    if pid == "C10":
        # retry: the real create_retry / _coerce_retry, and retry inside a run (calls, store read / write, modified-time query)
        cs.append(xhrun.Cond("harness_retry", "c10_retry", {}, timeout=600, label="retry_wrapper"))
        cs.append(xhrun.Cond("harness_retry", "c10_coerce", {}, timeout=300, label="retry_coerce"))
        cs.append(xhrun.Cond("harness_retry", "c10_limits", {}, timeout=600, label="limits_handed_to_engine"))
        for rn in ((1, 2, 3) if tier == "quick" else (1, 2, 3, 4)):
            for rk in "crwm":
                cs.append(xhrun.Cond("harness_retry", "c10_run", {"XH_RN": rn, "XH_RK": rk}, timeout=900, label=f"retry_run_n{rn}_{rk}", twin=(rn == 2)))
        cs.append(xhrun.Cond("harness_retry", "c10_run", {"XH_RN": 2, "XH_RK": "w", "XH_CUSTOM": 1}, timeout=900, label="retry_run_custom_n2_w"))
    if pid == "C07":
        # cycles are rejected up front: the real Kahn implementation on symbolic digraphs, and run() on plans with symbolic dependency edges
        topo = [("c07_kahn", {"XH_TN": 3, "XH_SELF": 1, "XH_MULTI": 0}), ("c07_run", {"XH_REG": 0, "XH_SELF": 0, "XH_TOUT": "last"}),
                ("c07_run", {"XH_REG": 1, "XH_SELF": 0, "XH_TOUT": "none"}), ("c07_run", {"XH_REG": 2, "XH_SELF": 0, "XH_TOUT": "last"})]
        if tier == "thorough":
            topo += [("c07_kahn", {"XH_TN": 4, "XH_SELF": 0, "XH_MULTI": 1}), ("c07_kahn", {"XH_TN": 3, "XH_SELF": 1, "XH_MULTI": 1}),
                     ("c07_run", {"XH_REG": 1, "XH_SELF": 1, "XH_TOUT": "last"}), ("c07_run", {"XH_REG": 0, "XH_SELF": 1, "XH_TOUT": "last"})]
        topo.append(("c07_render", {}))  # reporting a failure terminates (rendering the failed call's symbolic traceback)
        for fn, env in topo:
            cs.append(xhrun.Cond("harness_topo", fn, env, timeout=1500, label=fn + "".join(f"_{k[3:].lower()}{v}" for k, v in env.items())))
        # threads run creates include the display threads of the bundled observers: a member failing in __enter__ must not leave the
        # members entered before it running (their update threads) -- the composite's unwinding, from the C15 harness
        cs.append(xhrun.Cond("harness_prog", "c15_enter_fail", {}, timeout=300, label="observers_unwound_when_a_member_fails_to_start"))
    if pid in ("C01", "C04"):
        # plan -> engine graph: pruning keeps exactly the needed calls and every dependency between them (also through literals)
        prune = [("clcc", "", "", "lit", "last"), ("cllc", "", "", "lit", "all"), ("cllcc", "01,12,23,14", "02,03,04", "lit", "all"),
                 ("cllc", "01,12,23", "", "lit", "all", 1)]
        if tier == "thorough":
            prune += [("clcc", "", "", "all", "last"), ("cllc", "", "", "all", "all"), ("lclc", "", "", "all", "last"), ("clcc", "", "", "all", "all"),
                      ("cclc", "", "", "all", "none"), ("cllc", "", "", "all", "2"), ("cllcc", "01,12,23,14", "", "lit", "all"),
                      ("clclc", "01,12,23,34", "02,04", "lit", "last"), ("lcllc", "01,12,23,34", "02,13", "lit", "last")]
        for kinds, fix, no, ak, out, *rev in prune:
            rev = rev[0] if rev else 0
            cs.append(xhrun.Cond("harness_prune", "c01_prune", {"XH_PKINDS": kinds, "XH_PFIX": fix, "XH_PNO": no, "XH_PAK": ak, "XH_POUT": out, "XH_PREV": rev},
                                 timeout=2400, label=f"prune_{kinds}_fix{fix.replace(',', '_')}_no{no.replace(',', '_')}_{ak}_out{out}_rev{rev}"))
    return cs
