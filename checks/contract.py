"""Engine contract step shared by the E1 checks of properties that quantify over schedules (C02 C03 C05 C08 C09 C14 C15).

Those checks execute uberjob above `run_function_on_graph` on a sequential stand-in; their verdict is conditional on the engine
contract (each node's fn at most once, only after all its predecessors' fn returned normally, never downstream of a failure,
every node if nothing fails, returns/raises after all workers exited, raises the first recorded NodeError).  So each of them also
discharges that contract -- bounded: the two smallest E2 instances, all interleavings -- on the current source, in parallel with
its CrossHair conditions.  The deep instances stay with C01/C04/C06/C07.
"""
import json
import os
from concurrent.futures import ThreadPoolExecutor

from lib import common as C

from . import conc_checks as E2

BITS = sorted(set(E2.BITS["C01"] + E2.BITS["C04"] + E2.BITS["C06"] +
                  ["c07_thread_alive_at_return", "c07_inflight_at_return", "c07_start_after_return", "c07_running_after_return", "c07_deadlock"]))
_pool = ThreadPoolExecutor(max_workers=2)


def _run(pid):
    specs = [E2.inst("join3_w2", "join3", 2, 30), E2.inst("sym2_w2", None, 2, 26, sym=True, N=2)]
    for s in specs:
        s["src"] = C.SRC
        s["bits"] = BITS
    if pid in ("C15", "C03"):
        # C03's histories contain interrupted runs: the E1 model treats one as a run cut at some point, which needs the same fact --
        # when run raises KeyboardInterrupt nothing (no call, no store write) is in flight any more
        # "the observer is exited after all other notifications, also when the run fails / is interrupted" needs: when run returns or
        # raises -- also on KeyboardInterrupt in the calling thread -- no worker is alive and nothing is running any more
        # (interrupt positions: everything except the start/append window of the known finding C17:interrupt-between-thread-start-and-append,
        #  which is C17's to report)
        s = E2.inst("int_pair_w2", "pair", 2, 34, opts={"interrupt": True, "int_where": "not_startup"}, witnesses=("interrupted",))
        s["src"] = C.SRC
        s["bits"] = ["c07_thread_alive_at_return", "c07_inflight_at_return", "c07_running_after_return", "c07_start_after_return", "c07_deadlock",
                     "c17_interrupt_swallowed", "c17_interrupt_masked"]
        specs.append(s)
    with ThreadPoolExecutor(max_workers=3) as ex:
        return specs, list(ex.map(E2.run_instance, specs))


def start(pid):
    C.ensure_venv()
    return _pool.submit(_run, pid)


def finish(pid, fut, ev, code):
    """Merge the contract result into the check's evidence / exit code."""
    specs, results = fut.result()
    out, problems = [], []
    for r in results:
        st = r["status"]
        entry = {"instance": r["name"], "status": st, "N": r.get("N"), "W": r.get("W"), "K": r.get("K"),
                 "queries": [(q["q"], q["result"], q["solver_s"]) for q in r.get("queries", [])]}
        if st == "counterexample":
            rp = E2.write_replay(pid, r, suffix="")
            rc, o = E2.run_replay(rp)
            entry["bad"] = r.get("bad")
            if rc == 10:
                C.violation(pid, rp)
                print(f"  engine contract broken (instance {r['name']}: {r['bad']}; observed on real threads: {o.get('bad_observed')}): "
                      f"the property relies on it", flush=True)
                ev.violations += 1
                code = C.EXIT_VIOLATION
            else:
                problems.append(f"engine contract {r['name']}: model {r.get('bad')} did not reproduce (rc {rc})")
        elif st != "ok":
            problems.append(f"engine contract {r['name']}: {st} {str(r.get('detail', ''))[:200]}")
        out.append(entry)
    for p in problems:
        print(f"HARNESS-ERROR property={pid} {p}", flush=True)
    if problems and code == C.EXIT_OK:
        code = C.EXIT_HARNESS
    cov = ev.coverage
    cov["engine_contract"] = {"bits": BITS, "instances": out,
                              "note": "E2 BMC of run_function_on_graph.py (all interleavings, K checked by the unwinding query) on the two smallest instances; "
                                      "deeper instances: checks C01/C04/C06/C07"}
    nq = sum(len(r.get("queries", [])) for r in results)
    cov["obligations"] = cov.get("obligations", 0) + nq
    cov["discharged"] = cov.get("discharged", 0) + sum(1 for r in results if r["status"] == "ok" for _ in r.get("queries", []))
    ev.assumptions.append("engine contract: discharged by this check itself for N<=3, W=2 (coverage.engine_contract); for larger graphs / more workers it is assumed (C01/C04/C06/C07 cover N<=4, W<=3)")
    return code
