"""E1 checks for the progress properties: C15 (observers receive an exact, well-formed account -- sequential part and
composite observers) and the rendering part of C20 (bundled displays render every reachable state without raising).

Exposed for reuse by the integrator (who merges the E2/E3 results of the same properties):
    conditions(pid, tier) -> list[xhrun.Cond]
    describe(pid)         -> dict(functions_under_test, assumptions, oracle, bounds, rule, ...)
    sanity(pid)           -> dict of measured stub/oracle validations (concrete, no CrossHair)
    main(pid)             -> exit code (0 / 1 + VIOLATION line / 3)
"""
import json
import os
import subprocess
import sys
from concurrent.futures import ThreadPoolExecutor

from lib import common as C
from lib import xhrun

from . import contract

sys.path.insert(0, os.path.join(C.VERIF, "xh"))

H = "harness_prog"
A, D = "a", "d"


def _local_shapes():
    from world import Shape

    return {
        # a source, a stored call, and an unregistered call that no registered node depends on (requested as output)
        "src_store_out": Shape("src_store_out", 3, [(0, 1, A), (1, 2, A)], ["src", "store", "call"], 2),
        # the same without a requested output: the unregistered call is examined by the stale check but never runs
        "src_store_idle": Shape("src_store_idle", 3, [(0, 1, A), (1, 2, A)], ["src", "store", "call"], None),
    }


def _shape(name):
    import shapes

    loc = _local_shapes()
    return loc[name] if name in loc else shapes.BY_NAME[name]


def _sj(name):
    return json.dumps(_shape(name).to_json())


def max_ops(name, noreg=False):
    """Operation count of the longest run of this shape (everything missing): measured on the real code, concretely."""
    code = f"""
import os, sys, json, itertools
os.environ['XH_SHAPE'] = {json.dumps(_sj(name))}
os.environ['XH_NOREG'] = {'"1"' if noreg else '"0"'}
sys.path[:0] = [{os.path.join(C.VERIF, 'xh')!r}]
import harness_prog as H, world as W, uberjob
sh = H.SHAPE; n = sh.n; best = 0
for P in itertools.product([False, True], repeat=n):
    for TT in ([10, 20, 30, 40][:n], [40, 30, 20, 10][:n]):
        P_ = [P[j] or (sh.roles[j] == 'src' and not sh.preds[j]) for j in range(n)]
        w = W.World(W.NOW); b = H.build_scoped(sh, w, P_, TT, H._scopes(0, 0, 1, 0, n), not H.NOREG)
        try:
            uberjob.run(b.plan, registry=None if H.NOREG else b.reg, output=b.nodes[sh.out] if sh.out is not None else None,
                        progress=None, max_workers=1)
        except Exception: pass
        best = max(best, w.ops)
print(best)
"""
    env = dict(os.environ, VERIF_SRC=C.SRC)
    out = subprocess.run([C.PY, "-c", code], capture_output=True, text=True, env=env, timeout=120)
    return int(out.stdout.strip().splitlines()[-1])


# ---------------------------------------------------------------------------------------------------------------- C15
def _present_splits(n, k):
    """Case split of the first k present flags ('0'/'1'), the rest symbolic ('?')."""
    import itertools

    return ["".join(bits) + "?" * (n - k) for bits in itertools.product("01", repeat=k)]


def conds_c15(tier):
    cs, info = [], {}

    def run_cond(shape, label, split=0, twin=True, **env):
        sh = _shape(shape)
        e = {"XH_SHAPE": _sj(shape)}
        e.update({k: str(v) for k, v in env.items()})
        if split:
            for pat in _present_splits(sh.n, split):
                e2 = dict(e, XH_PRESENT=pat)
                cs.append(xhrun.Cond(H, "c15_run", e2, timeout=600, label=f"c15_run_{label}_p{pat.replace('?', 'x')}",
                                     twin=twin))
        else:
            cs.append(xhrun.Cond(H, "c15_run", e, timeout=600, label=f"c15_run_{label}", twin=twin))

    quick = tier == "quick"
    # -- successful / naturally failing runs (a missing source), whole store state and user scopes symbolic
    for name, split in (("src_store_out", 1), ("out_unstored", 1), ("src_store_idle", 1), ("join_s_s_into_s", 2)):
        run_cond(name, name, split)
    if not quick:
        import shapes

        done = {"out_unstored", "join_s_s_into_s"}
        for s in shapes.THOROUGH:
            if s.name not in done:
                run_cond(s.name, s.name, 2 if s.n <= 3 else 4)
        for name in ("src_store_out", "out_unstored", "join_s_s_into_s"):
            run_cond(name, name + "_fifo", 2, XH_ORDER="fifo")
    # -- failure injected at operation k (every k below the measured operation count)
    cut_shapes = ["src_store_out"] if quick else ["src_store_out", "out_unstored", "join_s_s_into_s", "dep_edge",
                                                   "chain_src_s_u_s", "fork_unstored_mid"]
    for name in cut_shapes:
        m = max_ops(name)
        info[name] = m
        sh = _shape(name)
        for k in range(m):
            run_cond(name, f"{name}_fail{k}", 2 if sh.n <= 3 else 3, twin=(k % 3 == 0), XH_CUT=k)
    # -- no registry (only the 'run' section exists)
    nr = "fork_unstored_mid"
    m = max_ops(nr, noreg=True)
    info[nr + "_noreg"] = m
    run_cond(nr, nr + "_noreg", XH_NOREG=1, XH_PRESENT="1111")
    for k in range(m if not quick else min(m, 2)):
        run_cond(nr, f"{nr}_noreg_fail{k}", XH_NOREG=1, XH_PRESENT="1111", XH_CUT=k, twin=(k == 0))
    # -- progress=(p1, p2): run() builds the composite itself; both recorders must hold the same account
    run_cond("out_unstored", "out_unstored_composite", 1, XH_COMPOSITE=1)
    run_cond("src_store_out", "src_store_out_composite_fail4", 2, XH_COMPOSITE=1, XH_CUT=4)
    # -- CompositeProgressObserver driven directly
    for members in (2, 3):
        cs.append(xhrun.Cond(H, "c15_composite", {"XH_MEMBERS": members, "XH_NMIN": 0, "XH_NMAX": 3}, timeout=600,
                             label=f"c15_composite_m{members}_len0to3"))
        for kf in range(4):
            cs.append(xhrun.Cond(H, "c15_composite", {"XH_MEMBERS": members, "XH_NMIN": 4, "XH_NMAX": 4, "XH_KFIRST": kf},
                                 timeout=600, label=f"c15_composite_m{members}_len4_first{kf}", twin=(kf == 0)))
    cs.append(xhrun.Cond(H, "c15_composite", {"XH_MEMBERS": 3, "XH_NMIN": 0, "XH_NMAX": 3 if quick else 4,
                                               "XH_BODY_RAISE": 1}, timeout=600, label="c15_composite_m3_body_raises"))
    cs.append(xhrun.Cond(H, "c15_enter_fail", {}, timeout=120, label="c15_enter_fail"))
    cs.append(xhrun.Cond(H, "c15_cfail", {}, timeout=300, label="c15_failure_in_c_level_callable"))
    return cs, {"max_ops_per_shape": info}


# ---------------------------------------------------------------------------------------------------------------- C20
def conds_c20(tier):
    cs = []
    quick = tier == "quick"

    def kinds(label, **env):
        cs.append(xhrun.Cond(H, "c20_kinds", {k: str(v) for k, v in env.items()}, timeout=600, label="c20_kinds_" + label))

    def counts(label, **env):
        cs.append(xhrun.Cond(H, "c20_counts", {k: str(v) for k, v in env.items()}, timeout=600, label="c20_counts_" + label))

    # -- scope tuples by symbolic kind / value codes
    i = 0
    for a in "012":
        for b in "012":
            kinds(f"n2_len22_first{a}{b}", XH_N=2, XH_LENS="22", XH_K0=a + b, XH_NEXC=0, XH_PAT=i % 5)
            i += 1
    kinds("n2_len11_exc2", XH_N=2, XH_LENS="11", XH_NEXC=2, XH_PAT=1)
    kinds("n2_len12", XH_N=2, XH_LENS="12", XH_NEXC=0, XH_PAT=2)
    kinds("n2_len21_exc1", XH_N=2, XH_LENS="21", XH_K0="22", XH_NEXC=1, XH_PAT=3)
    kinds("n3_len111", XH_N=3, XH_LENS="111", XH_NEXC=0, XH_PAT=4)
    kinds("n1_len2_exc2_nostale", XH_N=1, XH_LENS="2", XH_NEXC=2, XH_PAT=3, XH_STALE=0)
    if not quick:
        for a in "012":
            kinds(f"n3_len121_first{a}", XH_N=3, XH_LENS="121", XH_K0=a, XH_NEXC=0, XH_PAT=int(a))
        for a in "012":
            for b in "012":
                kinds(f"n3_len212_first{a}{b}", XH_N=3, XH_LENS="212", XH_K0=a + b, XH_NEXC=0, XH_PAT=(int(a) + int(b)) % 5)
        kinds("n3_len111_exc2", XH_N=3, XH_LENS="111", XH_NEXC=2, XH_PAT=0)
    # -- symbolic counts under the C15-legal invariant
    counts("console_n1_max9_exc1", XH_N=1, XH_MAXT=9, XH_NEXC=1, XH_OBS="c")
    counts("console_n2_max9", XH_N=2, XH_MAXT=9, XH_NEXC=0, XH_OBS="c")
    counts("html_n1_max9", XH_N=1, XH_MAXT=9, XH_NEXC=0, XH_OBS="h")
    counts("html_n2_sym1_max5", XH_N=2, XH_NSYM=1, XH_MAXT=5, XH_NEXC=0, XH_OBS="h", XH_PAT=3)
    counts("untraced_n1_max3_exc1", XH_N=1, XH_MAXT=3, XH_NEXC=1, XH_OBS="u")
    counts("untraced_n2_max1", XH_N=2, XH_MAXT=1, XH_NEXC=0, XH_OBS="u")
    if not quick:
        counts("console_n3_max9", XH_N=3, XH_MAXT=9, XH_NEXC=0, XH_OBS="c")
        counts("console_n1_max99", XH_N=1, XH_MAXT=99, XH_NEXC=0, XH_OBS="c")
        counts("console_n2_max9_exc2", XH_N=2, XH_MAXT=9, XH_NEXC=2, XH_OBS="c")
        counts("html_n2_max3", XH_N=2, XH_MAXT=3, XH_NEXC=0, XH_OBS="h")
        counts("html_n1_max9_exc2", XH_N=1, XH_MAXT=9, XH_NEXC=2, XH_OBS="h")
        counts("html_n3_sym1_max5", XH_N=3, XH_NSYM=1, XH_MAXT=5, XH_NEXC=0, XH_OBS="h", XH_PAT=1)
        counts("untraced_n1_max4_exc2", XH_N=1, XH_MAXT=4, XH_NEXC=2, XH_OBS="u")
        counts("untraced_n3_max1", XH_N=3, XH_MAXT=1, XH_NEXC=0, XH_OBS="u")
    # -- elapsed string digits, and the validation conditions of the two CrossHair-side models
    cs.append(xhrun.Cond(H, "c20_elapsed", {"XH_MAXE": 35999999 if quick else 3599999999}, timeout=600, label="c20_elapsed"))
    # -- the last rendering reflects the final counts: real update-thread code under a symbolic two-thread schedule
    for nn in ((1, 2) if quick else (1, 2, 3, 4)):
        cs.append(xhrun.Cond("harness_render", "c20_final_render", {"XH_NNOTE": nn}, timeout=900 if quick else 2400, label=f"c20_final_render_n{nn}"))
    cs.append(xhrun.Cond(H, "c20_contains_model", {}, timeout=120, label="c20_model_contains"))
    cs.append(xhrun.Cond(H, "c20_format_model", {}, timeout=300, label="c20_model_int_format"))
    return cs, {}


def conditions(pid, tier=None):
    tier = tier or C.tier()
    return (conds_c15 if pid == "C15" else conds_c20)(tier)[0]


# ---------------------------------------------------------------------------------------------------------------- texts
COMMON_TRUST = ["CrossHair 0.0.110", "z3 (crosshair's)", "CPython 3.12", "harness stubs / models listed in assumptions"]

DESCR = {
    "C15": {
        "functions_under_test": [
            "uberjob.run (with progress_observer: ...; _update_run_totals; _coerce_progress)",
            "caching.plan_with_value_stores / _update_stale_totals / _get_stale_scope / _get_stale_nodes.process_with_callbacks",
            "run_physical.prep_run_physical.process (running / completed / failed bracket)",
            "_graph.get_full_call_scope", "Plan.scope",
            "progress.CompositeProgressObserver (all methods)", "progress.composite_progress",
        ],
        "oracle": ("account(): the observer's log starts with the only 'enter' and ends with the only 'exit' (also when run raises); "
                   "increment_total(section, scope) precedes every running of that key; every completed/failed closes an open running "
                   "of the same key (sequential engine: the immediately preceding one); nothing open at exit; at every step "
                   "completed+failed+running <= total (the invariant C20 assumes). After success: completed == total per key, no "
                   "failed; 'run' totals per scope == calls/reads/writes in the world log mapped to (user scope..., function "
                   "name[, store method]); 'stale' totals per scope == Call nodes of the logical plan (sources included) mapped to "
                   "(user scope..., function name[, store class]). After a failure injected at operation k: exactly one failed, "
                   "for the scope of operation k, everything else that started completed, the run section absent when the stale "
                   "check failed. Composite: every member's log == enter + the sent sequence + exit; enter in member order, exit "
                   "in reverse; a member raising in __enter__ unwinds exactly the earlier members."),
        "assumptions": [
            "engine: run_function_on_graph replaced by the sequential stand-in world.seq_engine (engine contract established by E2: C01/C04/C06/C07); one call at a time, max_errors=0 -- the running/finished pairing under real threads and KeyboardInterrupt is the E2 part of C15",
            "stores: in-memory world.LStore with a logical clock; duck-typed datetimes carrying ints; pre-state times and fresh_time pairwise distinct and earlier than 'now'",
            "failure model: the k-th store/function operation raises an Exception (world.Cut); BaseException outcomes are outside the property",
            "user scopes: node j is created inside plan.scope(s_j) with s_j symbolic in {0,1} (node 0 fixed to 0: the run only hashes/compares scope values, so every partition of the nodes into <= 2 scope classes is reached); the last node inside two nested scopes; every call shares one function name so that scope equality is decided by the symbolic values",
            "plan sizes: the listed shapes (<= 4 logical nodes)",
            "networkx runs untraced (xh/nxpatch.py)",
            "composite harness: <= 4 notifications, 2-3 members, one symbolic section/amount per sequence, scope (x_i, 'f') with symbolic x_i",
            "recording observer Rec and account() validated concretely against the library's own State bookkeeping, and the sequential stand-in against the real threaded engine (1 and 2 workers) on the quick shape catalog: counts in coverage.stub_validations",
        ],
        "rule": ("one obligation per (shape, present-flag prefix, failing operation index, registry on/off, composite on/off, engine order) "
                 "resp. (members, length range); symbolic: present flags, modified times, fresh_time, user scope values resp. "
                 "notification kinds / scope values / amount / section; discharged = CrossHair 'Confirmed over all paths' and the "
                 "vacuity twin reachable; non-trivial = more than one path explored"),
    },
    "C20": {
        "functions_under_test": [
            "ConsoleProgressObserver._render (+ _print_header/_print_section/_print_new_exceptions/_ralign)",
            "HtmlProgressObserver._render / _render_html / _render_body / _render_section / _render_scope / _get_html_progress_string / _get_total_scope_state / _render_exception_tuples",
            "IPythonProgressObserver._render / _get_exception_accordion (untraced)",
            "_simple_progress_observer.sorted_scope_items / _universal_sort_key / _fallback_sort_key / get_scope_string / _get_progress_string / get_elapsed_string / ScopeState",
            "SimpleProgressObserver._run_update_thread / _do_render / __exit__ / increment_total / increment_running / increment_completed / increment_failed",
            "State.increment_running / increment_completed / increment_failed / update_weighted_elapsed",
        ],
        "oracle": ("no exception from any _render; console text has the header and, per section, one line per scope "
                   "'  <progress right-aligned> | <elapsed right-aligned> | <scope string>' with the progress string recomputed from "
                   "the documented format, 'new exceptions:' iff there are new ones; HTML document contains each scope's progress "
                   "string, failed badge and zero-width-spaced escaped scope cell and every exception title; HtmlProgressObserver._render "
                   "returns bytes handed to the output callable; IPython label / IntProgress widgets carry the progress string, "
                   "scope string, max == total, value == completed + failed; get_elapsed_string(e) == h'h'mm'm'ss's' with leading "
                   "zero units dropped for an independent h/m/s decomposition of e"),
        "assumptions": [
            "state space: 'run' section with 1-3 scopes (+ a one-scope 'stale' section), scope tuples of length 1-2 over {0, 1, 'a.b', '<&', Opaque(0), Opaque(1)}; Opaque = hashable, equatable, unorderable, default str()",
            "scope strings are UTF-8 encodable: a str scope value with a lone surrogate makes HtmlProgressObserver._render (and console _output) raise UnicodeEncodeError -- reported separately, excluded here",
            "scope values whose __str__/__hash__/__eq__ raise are outside ('merely hashable and equatable')",
            "counts: C15-legal invariant total >= 1, 0 <= completed+failed+running <= total; totals <= XH_MAXT (9 for the console, <= 9 HTML, small for the realised widget runs); weighted_elapsed and elapsed concrete",
            "c20_kinds: the kind / value codes are case split inside the path (pin) and the three renderers then run natively on the concrete state -- CrossHair/z3 enumerate the code combinations and report exhaustion",
            "c20_counts 'u' conditions: HtmlProgressObserver._render (incl. utf-8 encoding) and IPythonProgressObserver._render run untraced on realised counts (ipywidgets/traitlets internals are not symbolically executed); IPython.display.display is a no-op",
            "HTML total of a symbolic scope is case split inside the path (the bar widths divide by it: nonlinear otherwise)",
            "environment models installed in the uberjob module namespaces: fixed datetime.utcnow and time.time; print(file=)/StringIO model in the console observer (CrossHair 0.0.110 realises print arguments and copies the file object) -- validated against the real print/StringIO on concrete states (coverage.stub_validations)",
            "CrossHair's format() patch is extended: symbolic ints with spec '' / '02' are formatted to symbolic digit strings instead of being realised (validated by condition c20_model_int_format); symbolic floats (HTML bar widths, never inspected) render as '?'",
            "contains(): native pre-filter for substring tests on long CrossHair strings (validated by condition c20_model_contains)",
            "get_elapsed_string: ints 0 <= e <= XH_MAXE symbolically; float inputs only through concrete samples (int() truncation is CPython's)",
            "last render is final (xh/harness_render.py): the real _run_update_thread turned into a generator by an AST transformation (scheduling point before every statement outside `with self._lock`, Event.wait -> 'is the event set now'); granularity CHECKED on the source (notification bodies are one locked block, _do_render only under the lock, unprotected statements may store at most one shared attribute and not read any); schedule (14 symbolic choices) and clock readings symbolic; <= XH_NNOTE notifications then __exit__; Lock/Event/Thread/time stubs; replay = the same schedule through the same transformed real code in one OS thread (not on real threads)",
            "time attribution (lemmas/elapsed.py): z3 linear real arithmetic over terms computed by calling the real State methods with a z3-valued clock; every C15-legal history of <= K events over S scopes x T calls (quick K=5,S=2,T=2) with symbolic non-negative gaps, followed by a render; floats are treated as reals (float rounding is outside the claim); a sat model is replayed on the unmodified module with exact Fraction clock readings",
        ],
        "rule": ("one obligation per (number of scopes, tuple lengths, kinds of the first scope, pattern offset, exceptions) resp. "
                 "(renderer, scopes, count bound); symbolic: kind/value codes, new_exception_index resp. completed/failed/running/total; "
                 "discharged = 'Confirmed over all paths' + reachable twin; non-trivial = more than one path"),
    },
}


def describe(pid):
    d = dict(DESCR[pid])
    d["trusted_base"] = list(COMMON_TRUST)
    d["checker_cmd"] = ("crosshair check --report_all --per_condition_timeout T harness_prog.<fn> (one process per condition, "
                        "case split in the environment), z3 backend; every model replayed without CrossHair")
    d["explanation"] = (
        "bounded symbolic execution of the real uberjob code: CrossHair explores every feasible path of the harness for the given "
        "case split and z3 discharges each path condition ('Confirmed over all paths'). " +
        ("Store state and scope values are symbolic; plan shape, failing operation index and observer composition are the stated bound. "
         if pid == "C15" else
         "Counts are symbolic under the C15-legal invariant (bounded totals); scope kind codes are solver-enumerated; the state "
         "shapes listed are the stated bound. ") + "Not a proof for all plans / states.")
    return d


def sanity(pid):
    """Concrete validation of the stubs / models / oracles (no CrossHair): measured counts."""
    env = dict(os.environ, VERIF_SRC=C.SRC, PYTHONPATH=os.pathsep.join([xhrun.XHDIR, C.VERIF]), PYTHONHASHSEED="0")
    env.pop("XH_TWIN", None)
    p = subprocess.run([C.PY, "-c", f"import harness_prog as H; H.sanity({pid!r})"], capture_output=True, text=True, env=env,
                       cwd=xhrun.XHDIR, timeout=600)
    if p.returncode != 0:
        return {"error": (p.stdout + p.stderr)[-1500:]}
    return json.loads(p.stdout.strip().splitlines()[-1])


def elapsed_lemma(pid, tier, ev):
    """E3: z3 (linear real arithmetic) on terms computed by the real State methods; see lemmas/elapsed.py."""
    cfgs = [(5, 2, 2)] if tier == "quick" else [(7, 2, 2), (6, 3, 1), (6, 2, 3)]
    code = C.EXIT_OK
    out = []
    for kmax, nscope, total in cfgs:
        p = subprocess.run([C.PY, "-c", f"import json, sys; sys.path.insert(0, {C.VERIF!r}); from lemmas import elapsed; "
                            f"print(json.dumps(elapsed.run({C.SRC!r}, {kmax}, {nscope}, {total})))"],
                           capture_output=True, text=True, timeout=3000)
        try:
            r = json.loads(p.stdout.strip().splitlines()[-1])
        except Exception:
            print(f"HARNESS-ERROR property={pid} elapsed lemma crashed: {(p.stdout + p.stderr)[-500:]!r}", flush=True)
            return C.EXIT_HARNESS
        out.append({k: v for k, v in r.items() if k not in ("sat", "inconclusive")} | {"sat": len(r["sat"]), "inconclusive": len(r["inconclusive"])})
        if r["sat"]:
            m = r["sat"][0]
            path = os.path.join(C.replay_dir(pid), f"elapsed_k{kmax}_s{nscope}_t{total}.json")
            json.dump({"src": C.SRC, "history": m["history"], "gaps": m["gaps"], "nscope": nscope, "total": total, "why": m["why"]}, open(path, "w"))
            q = subprocess.run([C.PY, os.path.join(C.VERIF, "lemmas", "elapsed.py"), "replay", path], capture_output=True, text=True, timeout=120)
            if q.returncode == 10:
                C.violation(pid, path)
                print("  " + q.stdout.strip()[-400:])
                ev.violations += 1
                code = C.EXIT_VIOLATION
            else:
                print(f"HARNESS-ERROR property={pid} elapsed lemma model did not reproduce on the real module: {(q.stdout + q.stderr)[-400:]!r}", flush=True)
                code = code if code == C.EXIT_VIOLATION else C.EXIT_HARNESS
        elif r["inconclusive"] or not r.get("witness_busy_history"):
            print(f"HARNESS-ERROR property={pid} elapsed lemma inconclusive: {json.dumps(r['inconclusive'][:2])[:400]} witness={r.get('witness_busy_history')}", flush=True)
            code = code if code == C.EXIT_VIOLATION else C.EXIT_HARNESS
    cov = ev.coverage
    cov["elapsed_lemma"] = out
    cov["obligations"] = cov.get("obligations", 0) + sum(o["histories"] for o in out)
    cov["discharged"] = cov.get("discharged", 0) + sum(o["unsat"] for o in out)
    cov["evaluations"] = cov.get("evaluations", 0) + sum(o["histories"] for o in out)
    return code


def main(pid):
    if pid not in DESCR:
        raise SystemExit(f"no check for {pid}")
    tier = C.tier()
    ev = C.Evidence(pid, "other")
    d = describe(pid)
    ev.assumptions = list(d["assumptions"])
    conds, extra = (conds_c15 if pid == "C15" else conds_c20)(tier)
    cfut = contract.start(pid) if pid == "C15" else None
    with ThreadPoolExecutor(max_workers=1) as ex:
        fut = ex.submit(sanity, pid)
        results = xhrun.run_conditions(pid, conds)
        san = fut.result()
    code = xhrun.summarize(pid, results, ev)
    if cfut is not None:
        code = contract.finish(pid, cfut, ev, code)
    cov = ev.coverage
    cov.update(extra)
    if pid == "C20":
        lcode = elapsed_lemma(pid, tier, ev)
        if lcode == C.EXIT_VIOLATION or (lcode != C.EXIT_OK and code == C.EXIT_OK):
            code = lcode
    cov["stub_validations"] = san
    if "error" in san:
        print(f"HARNESS-ERROR property={pid} concrete stub/oracle validation failed: {san['error'][-600:]!r}", flush=True)
        if code == C.EXIT_OK:
            code = C.EXIT_HARNESS
    for k in ("functions_under_test", "oracle", "rule", "checker_cmd", "trusted_base", "explanation"):
        cov[k] = d[k]
    cov["bounds"] = "conditions: " + ", ".join(r["label"] for r in results)[:6000]
    cov["distinct_nontrivial"] = sum(1 for r in results if r["status"] == "confirmed" and r["main"]["paths"] > 1)
    cov["slowest_conditions_s"] = sorted(((r["main"]["seconds"], r["label"]) for r in results), reverse=True)[:5]
    cov["part"] = "E1 (CrossHair) part of the property; the E2/E3 parts are merged by the integrator"
    ev.write()
    print(f"{pid} {tier}: {cov['discharged']}/{cov['obligations']} conditions discharged, {cov['crosshair_paths']} paths, "
          f"validations {san}, exit {code}")
    return code
