"""E1 checks for the file-store properties C11 (atomic replacement at every failure point) and C12 (read-after-write
round trip, get_modified_time) -- real uberjob.stores code on the model file system xh/modelfs.py, CrossHair/z3 decide.

Deciding step: CrossHair "Confirmed over all paths" per condition (xh/harness_fs.py).  Concrete runs are used only
  (a) to replay solver models / reachability witnesses -- the replay also runs the same scenario on the REAL file system
      (real open / os.replace in a temp directory, injected faults, death = os._exit in a forked child) and requires the
      model's observations to be identical (exit code 12 otherwise -> harness error), and
  (b) to validate the stubs inside this run: model codecs vs CPython codecs, ModelFS vs the real file system on tricky
      strings / error cases, and a concrete sweep of every harness function with the real-file-system mirror switched on.
"""
import json
import os
import subprocess
import sys
import threading

from lib import common as C
from lib import xhrun

XHDIR = os.path.join(C.VERIF, "xh")

ASSUMPTIONS_COMMON = [
    "file system: ModelFS (xh/modelfs.py) replaces open / os.replace,rename,remove,unlink / os.path.getmtime,exists / "
    "tempfile.TemporaryDirectory in the uberjob.stores.* module namespaces and pathlib.Path.open/unlink/replace/rename/exists "
    "for paths below /mfs; files are inodes (bytes + mtime), no directories, no permissions, no symlinks",
    "POSIX contract assumed by the model: os.replace is atomic and moves the inode (mtime travels); open('w') truncates in "
    "place; data written to a file object reaches the inode at close()/flush() (XH_EAGER=0) or at the end of every write() "
    "(XH_EAGER=1) -- the two extremes of BufferedWriter behaviour, both checked; a failed close() loses the buffered data "
    "and still closes the file.  Kernel durability (fsync, rename persistence after power loss) is outside the claim",
    "text layer modelled after io.TextIOWrapper: encoding None/'locale' = locale encoding (utf-8 here), newline None/''/"
    "'\\n'/'\\r'/'\\r\\n' semantics, encoder runs inside write(), utf-16 BOM with the first write(); codecs utf-8 / latin-1 "
    "/ ascii / utf-16 (native order) are arithmetic Python models validated against CPython's codecs in this run; "
    "errors= other than strict, buffering=, '+' modes are not modelled (ModelGap)",
    "model clock: concrete instants 1_700_000_000 + (number of operations so far); get_modified_time goes through the real "
    "datetime.fromtimestamp in the process time zone (constant offset at these instants); DST / zone questions are not "
    "handled here (C18 / datetime model)",
    "CrossHair 0.0.110 + z3 decide every path; harness functions are replayed concretely in a fresh interpreter",
]

ASSUMPTIONS_C11 = [
    "fault model: at most two operations raise OSError (indices k1<k2, symbolic, unbounded) and/or the process dies just "
    "before operation d (symbolic); operations = open-for-write, each write(), flush(), close(), replace/rename, remove; "
    "quick tier: raise-faults and death are separate conditions (XH_FK=raise|die), thorough adds the combined ones",
    "death = the model raises a BaseException marker (Die) and afterwards every file operation raises Die without effect, "
    "so uberjob's `except BaseException: _try_remove(...)` cleanup has no effect, as after os._exit/SIGKILL; open file "
    "objects of the dead process never flush.  Real death is exercised only in replays (forked child + os._exit)",
    "a failing os.remove during cleanup is never injected (uberjob cannot remove the staging file if remove itself fails): "
    "outside the claim",
    "'complete new value' = the content a fault-free write of the same value produces on an empty model file system "
    "(reference run inside the harness); 'complete old value' = same bytes AND same mtime as before",
    "values: Text: symbolic str of ASCII code points (len <= bound) [non-ASCII/codec coverage is C12's], plus the "
    "unencodable value 'ab\\ud800' (UnicodeEncodeError inside write = serialisation error); Binary / helper chunks: symbolic "
    "bytes; Json / Pickle: CONCRETE values from a short list (C serialisers realise symbolic values) incl. values whose "
    "serialisation fails part-way (non-serialisable object nested in a list/dict: chunks written, then TypeError / "
    "PicklingError); Touch: None",
    "helpers staged_write / staged_write_path: the 'user code' in the with-block writes one or two symbolic chunks and may "
    "raise an Exception or a BaseException at a symbolic position (uf, ub)",
    "old content: present flag symbolic, bytes symbolic (len <= bound), old mtime = T0-1000",
    "later write+read (after a 'reboot' of the model: faults off) is done in the same condition with a concrete value",
    "two-writer conditions: a write to store A (BinaryFileStore.write, or any store: the staging logic is shared) is "
    "overlapped by a write to a DIFFERENT store B in the same directory, B starting just before A's file operation j "
    "(j = 0..3 case split) and finishing inside or after A; names: str paths fully symbolic (len <= bound, single path "
    "component), pathlib paths from a finite grid of names chosen by solver ints (pathlib realises symbolic names); pairs "
    "where one target is literally the other's staging name are excluded",
]

ASSUMPTIONS_C12 = [
    "Text: symbolic str, any code point incl. '\\r' '\\n' '\\x00' and astral planes, len <= bound; values the encoding "
    "cannot represent (lone surrogates; > U+00FF for latin-1) are outside the store's domain and filtered explicitly",
    "Binary: symbolic bytes len <= 3 (content is never inspected by the store: the solver shows the same object comes back)",
    "Json / Pickle / Touch: the VALUE is concrete (listed in xh/harness_fs.py JSON_VALUES / PICKLE_VALUES; C serialisers "
    "realise symbolic values), the plumbing state (old file present?, old bytes, inaccessible flag) is symbolic",
    "MountedStore: harness subclass whose copy functions copy ModelFS bytes between the 'remote' path and the local path; "
    "tempfile.TemporaryDirectory is a model directory that is emptied on exit",
    "get_modified_time: None iff the file is absent or os.path.getmtime raises PermissionError (symbolic flags); after a "
    "successful write not None; two successive writes give non-decreasing results under the constant-offset clock",
    "overlapping writes to two different stores (same conditions as under C11): after A.write(da) returned, A.read() == da",
]

FUNCS = ["uberjob.stores._file_store.staged_write_path", "uberjob.stores._file_store.staged_write",
         "uberjob.stores._file_store.get_modified_time", "uberjob.stores._file_store._try_remove",
         "TextFileStore.read/write", "BinaryFileStore.read/write", "JsonFileStore.read/write", "PickleFileStore.read/write",
         "TouchFileStore.read/write", "MountedStore.read/write", "FileStore.get_modified_time"]


def _cond(func, label, timeout=600, **env):
    return xhrun.Cond("harness_fs", func, {k: v for k, v in env.items()}, timeout=timeout, label=label)


def _two_writer_conds(tier, prefix):
    cs = []
    ngrid = 8 if tier == "quick" else 10
    ln = 2 if tier == "quick" else 3
    for j in range(4):
        e = j % 2
        cs.append(_cond("c11_two_grid", f"{prefix}_two_grid_path_j{j}_e{e}", XH_STORE="binary", XH_PK="path", XH_J=j, XH_EAGER=e, XH_NGRID=ngrid))
        cs.append(_cond("c11_two_sym", f"{prefix}_two_sym_str_j{j}_e{1 - e}", XH_STORE="binary", XH_PK="str", XH_J=j, XH_EAGER=1 - e, XH_LEN=ln))
        if tier == "thorough":
            cs.append(_cond("c11_two_grid", f"{prefix}_two_grid_str_j{j}_e{1 - e}", XH_STORE="binary", XH_PK="str", XH_J=j, XH_EAGER=1 - e, XH_NGRID=ngrid))
    for pk in ("str", "path"):
        cs.append(_cond("c11_staging_name", f"{prefix}_staging_name_{pk}", XH_STORE="binary", XH_PK=pk))
    if prefix == "c12":
        # the same through MountedStore (every store stages in a local scratch file): B's whole write lands between two file
        # operations of A's write (A's local staging, its rename, the copy to the remote)
        for j in range(6 if tier == "quick" else 9):
            cs.append(_cond("c11_two_grid", f"{prefix}_two_mounted_grid_j{j}", XH_STORE="binary", XH_PK="path" if j % 2 else "str", XH_J=j, XH_EAGER=j % 2,
                            XH_NGRID=4, XH_MOUNT=1))
    return cs


def conds_c11(tier):
    cs = []
    if tier == "quick":
        cfgs = [
            ("text", "str", "none", 0, 0), ("text", "path", "utf-16", 1, 0),
            ("binary", "str", "none", 1, 0), ("binary", "path", "none", 0, 0),
            ("json", "path", "none", 0, 0), ("json", "str", "utf-16", 1, 2),
            ("pickle", "str", "none", 0, 0), ("pickle", "path", "none", 1, 1),
            ("touch", "str", "none", 0, 0), ("touch", "path", "none", 1, 0),
            ("sw", "str", "none", 0, 0), ("sw", "path", "none", 1, 0),
            ("swp", "path", "none", 0, 0), ("swp", "str", "none", 1, 0),
        ]
        fks = ["raise", "die"]
        lv = 2
    else:
        cfgs = []
        for st in ("text", "binary", "json", "pickle", "touch", "sw", "swp"):
            for pk in ("str", "path"):
                for e in (0, 1):
                    encs = ["none", "utf-16", "latin-1"] if st in ("text", "json") else ["none"]
                    vals = {"json": [0, 1, 2], "pickle": [0, 1]}.get(st, [0])
                    for enc in encs:
                        for v in vals:
                            if enc != "none" and v > 0:
                                continue
                            cfgs.append((st, pk, enc, e, v))
        fks = ["raise", "die", "both"]
        lv = 2
    for st, pk, enc, e, v in cfgs:
        for fk in fks:
            if fk == "both" and st in ("sw", "swp", "json") and (pk, e) not in (("str", 0), ("path", 1)):
                continue  # the combined raise+die conditions of the chunk-rich writers are the expensive ones
            # the path-rich combinations are split further (had_old flag / position of the user-code fault) to keep conditions short
            splits = [{}]
            if st == "json" and fk != "die":
                splits = [{"XH_OLD": 0}, {"XH_OLD": 1}]
            if st in ("sw", "swp") and fk != "die":
                splits = [{"XH_UF": u} for u in (-1, 0, 1, 2)]
            for sp in splits:
                suffix = "".join(f"_{k[3:].lower()}{x}" for k, x in sp.items())
                cs.append(_cond("c11_write", f"c11_write_{st}_{pk}_{enc}_e{e}_v{v}_{fk}{suffix}", timeout=600 if tier == "quick" else 1500,
                                XH_STORE=st, XH_PK=pk, XH_ENC=enc, XH_EAGER=e, XH_VAL=v, XH_FK=fk, XH_LV=lv, **sp))
    cs += _two_writer_conds(tier, "c11")
    return cs


def conds_c12(tier):
    cs = []
    variants = [("str", 0, 0), ("path", 1, 1), ("path", 0, 1), ("str", 1, 0)]  # (path kind, mounted, eager)
    big = 3 if tier == "quick" else 4

    def text(enc, pk, mo, e, **kw):
        lab = f"c12_text_{enc}_{pk}_m{mo}_e{e}" + "".join(f"_{k[3:].lower()}{v}" for k, v in sorted(kw.items()))
        cs.append(_cond("c12_text", lab, timeout=600 if tier == "quick" else 1500, XH_STORE="text", XH_ENC=enc, XH_PK=pk,
                        XH_MOUNT=mo, XH_EAGER=e, **kw))

    for i, enc in enumerate(["none", "utf-8", "latin-1", "utf-16"]):
        pk, mo, e = variants[i]
        if enc in ("none", "utf-8"):
            # utf-8 has 5 encodable code point classes per character: split the longest strings by the first one
            for c0 in range(6):
                if c0 == 3:
                    continue  # class 3 = surrogates: not encodable, nothing to check
                text(enc, pk, mo, e, XH_LEN=big, XH_LENEQ=big, XH_C0=c0)
            if big == 4:
                text(enc, pk, mo, e, XH_LEN=3, XH_LENEQ=3)
            text(enc, pk, mo, e, XH_LEN=2)
        else:
            text(enc, pk, mo, e, XH_LEN=big)
        if tier == "thorough":
            for (pk2, mo2, e2) in variants:
                if (pk2, mo2, e2) != (pk, mo, e):
                    text(enc, pk2, mo2, e2, XH_LEN=3 if enc in ("latin-1", "utf-16") else 2)
    for (pk, mo, e) in variants:
        cs.append(_cond("c12_binary", f"c12_binary_{pk}_m{mo}_e{e}", XH_STORE="binary", XH_PK=pk, XH_MOUNT=mo, XH_EAGER=e))
    nj, npk = 7, 7
    for v in range(nj):
        pk, mo, e = variants[v % 4]
        enc = ["none", "utf-16", "latin-1", "utf-8"][v % 4]  # (json.dump escapes non-ASCII: every encoding can hold every value)
        cs.append(_cond("c12_value", f"c12_json_v{v}_{enc}_{pk}_m{mo}_e{e}", XH_STORE="json", XH_VAL=v, XH_ENC=enc, XH_PK=pk, XH_MOUNT=mo, XH_EAGER=e))
        if tier == "thorough":
            pk, mo, e = variants[(v + 1) % 4]
            cs.append(_cond("c12_value", f"c12_json_v{v}_none_{pk}_m{mo}_e{e}", XH_STORE="json", XH_VAL=v, XH_ENC="none", XH_PK=pk, XH_MOUNT=mo, XH_EAGER=e))
    for v in range(npk):
        pk, mo, e = variants[(v + 1) % 4]
        cs.append(_cond("c12_value", f"c12_pickle_v{v}_{pk}_m{mo}_e{e}", XH_STORE="pickle", XH_VAL=v, XH_PK=pk, XH_MOUNT=mo, XH_EAGER=e))
        if tier == "thorough":
            pk, mo, e = variants[(v + 2) % 4]
            cs.append(_cond("c12_value", f"c12_pickle_v{v}_{pk}_m{mo}_e{e}", XH_STORE="pickle", XH_VAL=v, XH_PK=pk, XH_MOUNT=mo, XH_EAGER=e))
    for (pk, mo, e) in variants:
        cs.append(_cond("c12_value", f"c12_touch_{pk}_m{mo}_e{e}", XH_STORE="touch", XH_VAL=0, XH_PK=pk, XH_MOUNT=mo, XH_EAGER=e))
    cs += _two_writer_conds(tier, "c12")
    return cs


# ---------------------------------------------------------------------------------------------- stub validation
_SWEEP = r'''
import os, sys, itertools
sys.path[:0] = [%(xh)r, %(verif)r]
import harness_fs as H
n = 0; bad = []
def chk(r, *a):
    global n
    n += 1
    if r is not True:
        bad.append((H.STORE, H.PK, a, r))
S = H.STORE
for had_old in (False, True):
    for k1, k2 in [(-1, -1), (0, -1), (1, -1), (2, -1), (3, -1), (1, 2), (2, 3), (0, 1), (5, -1), (8, -1)]:
        for d in (-1, 0, 1, 2, 3, 4, 6, 9):
            if k1 >= 0 and d >= 0 and (k1 + d) %% 3:
                continue
            ufs = [(-1, False)] if S not in ("sw", "swp") else [(-1, False), (0, False), (1, True), (2, False)]
            for uf, ub in ufs:
                for bad_ in ([False, True] if S in ("json", "pickle", "text") else [False]):
                    chk(H.c11_write(had_old, b"ol", "a\r", b"n\n", b"x", uf, ub, bad_, k1, k2, d), "c11", had_old, k1, k2, d, uf, ub, bad_)
if S == "text":
    for s in ["", "a\rb", "\r\n", "\x00\xe9", "\U0001f600\n", "\ud800", "\u0100"]:
        for ho in (False, True):
            chk(H.c12_text(s, ho, b"o"), "c12_text", s, ho)
if S == "binary":
    for b in [b"", b"\r\n\x00", b"\xff"]:
        for ho in (False, True):
            for ia in (False, True):
                chk(H.c12_binary(b, ho, b"o", ia), "c12_binary", b, ho, ia)
    for ia, ib in itertools.permutations(range(H.NGRID), 2):
        for ins in (False, True):
            chk(H.c11_two_grid(ia, ib, b"A", b"B", ins), "two_grid", ia, ib, ins)
    if H.PK == "str":
        chk(H.c11_two_sym("a", "b", b"A", b"", False), "two_sym")
        chk(H.c11_two_sym("a.x", "a.y", b"A", b"B", True), "two_sym")
    for i in range(len(H.NAMES)):
        chk(H.c11_staging_name("a b", i), "staging_name", i)
if S in ("json", "pickle", "touch"):
    for ho in (False, True):
        for ia in (False, True):
            chk(H.c12_value(ho, b"o", ia), "c12_value", ho, ia)
print("SWEEP", n, len(bad), bad[:3])
'''


def validate_stubs(tier):
    """Concrete validation of every stub against the real thing (cheap; runs beside the CrossHair conditions)."""
    out = {"ok": True, "detail": []}
    env = dict(os.environ, VERIF_SRC=C.SRC, PYTHONPATH=os.pathsep.join([XHDIR, C.VERIF]))
    env.pop("XH_TWIN", None)
    stride = 257 if tier == "quick" else 1
    code = (f"import sys; sys.path[:0]=[{XHDIR!r}]; import modelfs as M; "
            f"print('VALID', M.validate_codecs({stride}), M.validate_against_real_fs())")
    p = subprocess.run([C.PY, "-c", code], capture_output=True, text=True, env=env, timeout=900)
    line = [ln for ln in p.stdout.splitlines() if ln.startswith("VALID ")]
    if p.returncode != 0 or not line:
        out["ok"] = False
        out["detail"].append(("modelfs validation failed", (p.stdout + p.stderr)[-1500:]))
        out["codec_comparisons"] = out["fs_comparisons"] = 0
    else:
        _, a, b = line[0].split()
        out["codec_comparisons"], out["fs_comparisons"] = int(a), int(b)
    sweeps = 0
    procs = []
    for st in ("text", "binary", "json", "pickle", "touch", "sw", "swp"):
        for pk, e, enc, val in (("str", 0, "none", 0), ("path", 1, "utf-16" if st in ("text", "json") else "none", 1)):
            e2 = dict(env, XH_STORE=st, XH_PK=pk, XH_EAGER=str(e), XH_ENC=enc, XH_VAL=str(val), XH_J=str(3 if pk == "path" else 1))
            procs.append((st, pk, subprocess.Popen([C.PY, "-c", _SWEEP % {"xh": XHDIR, "verif": C.VERIF}], stdout=subprocess.PIPE,
                                                   stderr=subprocess.STDOUT, text=True, env=e2)))
    for st, pk, pr in procs:
        so, _ = pr.communicate(timeout=900)
        line = [ln for ln in so.splitlines() if ln.startswith("SWEEP ")]
        if pr.returncode != 0 or not line or line[0].split()[2] != "0":
            out["ok"] = False
            why = "model and real file system disagree (exit 12)" if pr.returncode == 12 else "a harness function returned False / raised on concrete inputs"
            out["detail"].append((f"concrete sweep {st}/{pk} rc={pr.returncode}: {why}", so[-1500:]))
        else:
            sweeps += int(line[0].split()[1])
    out["harness_calls_mirrored_on_real_fs"] = sweeps
    return out


def main(pid):
    tier = C.tier()
    ev = C.Evidence(pid, "other")
    if pid == "C11":
        conds = conds_c11(tier)
        ev.assumptions = ASSUMPTIONS_COMMON + ASSUMPTIONS_C11
        oracle = ("after the faulty write: target == complete old (same bytes, same mtime) or complete new (content of a fault-free "
                  "reference write); success => new; process alive => no other file (no *.STAGING) remains; then a later write + read "
                  "succeeds, returns the later value and leaves exactly the target")
    elif pid == "C12":
        conds = conds_c12(tier)
        ev.assumptions = ASSUMPTIONS_COMMON + ASSUMPTIONS_C12
        oracle = ("read() after write(v) is equal to v and of the same type (recursively), twice in a row; get_modified_time is None "
                  "iff absent/inaccessible, not None after a write, non-decreasing; nothing but the stored file remains")
    else:
        raise SystemExit(f"no check for {pid}")
    val = {}
    th = threading.Thread(target=lambda: val.update(validate_stubs(tier)))
    th.start()
    results = xhrun.run_conditions(pid, conds)
    th.join()
    code = xhrun.summarize(pid, results, ev)
    cov = ev.coverage
    witnesses = sum(1 for r in results if r.get("witness_rc") == 0)
    cov["oracle"] = oracle
    cov["functions_under_test"] = FUNCS
    cov["stub_validation"] = {k: v for k, v in val.items() if k != "detail"}
    cov["traces_validated_against_impl"] = witnesses + val.get("harness_calls_mirrored_on_real_fs", 0)
    cov["explanation"] = (
        "bounded symbolic execution of the real uberjob.stores code on a model file system: per condition CrossHair enumerates every "
        "feasible path of the harness (fault indices, death index, presence flags, old bytes, written str/bytes are symbolic; store "
        "class, path kind, encoding, buffering mode and the Json/Pickle value are the concrete case split) and z3 discharges each path "
        "condition ('Confirmed over all paths').  Every reachability witness and every counterexample is replayed concretely, and that "
        "replay runs the same scenario on the real file system (real faults via /dev/full, real death via fork+os._exit) and demands "
        "identical observations.  Not a proof about the kernel: the file-system contract is the model's.")
    cov["checker_cmd"] = "crosshair check --report_all --per_condition_timeout T harness_fs.<fn>  (one process per condition, env = case split), z3 backend"
    cov["trusted_base"] = ["CrossHair 0.0.110", "z3 (crosshair's)", "CPython 3.12", "xh/modelfs.py (validated in-run against the real file system and CPython codecs)"]
    cov["bounds"] = ("symbolic str len <= 2 (C11, ASCII) / <= %d (C12, any code point); bytes len <= 2-3; old content len <= 2; fault indices "
                     "unbounded (every operation of the write is reached); at most 2 raise-faults + 1 death per write; Json/Pickle values: "
                     "fixed list; name grid %d names / symbolic names len <= %d" % (3 if tier == "quick" else 4, 8 if tier == "quick" else 10, 2 if tier == "quick" else 3))
    cov["rule"] = ("one obligation per (harness function, store class, path kind, encoding, buffering mode, value index, fault-kind split, "
                   "length/class split); discharged = CrossHair 'Confirmed over all paths' AND the vacuity twin produced a witness whose "
                   "concrete replay (incl. real-file-system mirror) returned True; non-trivial = confirmed with more than one explored path")
    cov["distinct_nontrivial"] = sum(1 for r in results if r["status"] == "confirmed" and r["main"]["paths"] > 1)
    cov["condition_timings_s"] = {r["label"]: [r["main"]["seconds"], r["main"]["paths"]] for r in results}
    if not val.get("ok", False):
        for what, detail in val.get("detail", [("validation did not run", "")]):
            print(f"HARNESS-ERROR property={pid} concrete validation: {what}: {detail[-600:]!r}", flush=True)
        if code == C.EXIT_OK:
            code = C.EXIT_HARNESS
    ev.write()
    print(f"{pid} {tier}: {cov['discharged']}/{cov['obligations']} conditions discharged, {cov['crosshair_paths']} paths, "
          f"stub validation {cov['stub_validation']}, exit {code}")
    return code
