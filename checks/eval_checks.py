"""E1 check for C02: run returns exactly what direct evaluation would return (xh/harness_eval.py).

Deciding step: CrossHair "Confirmed over all paths" for every condition (one OS process per condition) + a reachable
vacuity twin.  Concrete runs are used only (a) to replay solver models, (b) in `_validate` below, which sanity-checks
the harness' own stubs/oracles against the real thing (real thread engine, hand-written direct evaluations, and
in-memory sabotage of uberjob that the oracles must notice).
"""
import itertools
import json
import os
import subprocess
import sys
from concurrent.futures import ThreadPoolExecutor

from lib import common as C
from lib import xhrun

from . import contract

XHDIR = os.path.join(C.VERIF, "xh")
MOD = "harness_eval"

STUBS = [
    "engine: run_function_on_graph replaced by world.seq_engine, a sequential stand-in (one worker, LIFO ready list) that satisfies the "
    "engine contract E2 establishes (C01/C04/C06/C07); run is always called with progress=None, max_workers=1",
    "NOT explored here: scheduler None/'default'/'random', max_workers > 1, timing. Schedule independence of the returned value is "
    "delegated to C01/C04 (values flow only through slots written before any successor starts); seeded change C02_m2 is out of reach",
    "networkx runs untraced (xh/nxpatch.py): it only ever sees concrete node objects and edge keys",
    "shape dimension: every finite code (option index per slot, width, p, k, variant, iterable kind) is decoded by explicit == tests, so "
    "CrossHair exhausts it path by path (enumeration by the solver's path search); genuinely symbolic per path: leaf ints, node values, "
    "sort keys (unbounded ints)",
    "leaves that end up inside a set() are bounded to a domain of XH_HDOM (2 quick / 3 thorough) values: CPython's set() hashes and so "
    "realises them (enough for every equal/unequal pattern of <= 2 (quick) elements); dict keys stay unbounded symbolic ints",
    "structure bounds: containers nested <= 2 deep (dict items count as one level), width <= 2; inside depth-2 containers only "
    "const / node_a (/ node_b in thorough) leaves; quick: at most one slot of a width-2 root draws from the rich option list, the others "
    "from const/node_a/node_b (thorough adds both-rich conditions)",
    "call arguments: p + k <= 3 (quick; poor slots when p + k = 3) / <= 4 (thorough); keyword names are the fixed alphabet b,d,a,c by index "
    "(neither alphabetical nor reverse); the call function is a recording spy(*args, **kwargs)",
    "get_argument_nodes: p + k <= 4 edges, predecessors are Literal nodes, one optional extra Dependency edge, one optional remove/re-add; "
    "quick uses a reduced list of (share, re-add, dependency) combinations, thorough the full product",
    "unpack: requested n in 0..4, actual length m in 0..5, iterable = literal list / list, generator, tuple returned by a call; for n = 0 "
    "the unpack call itself is requested as output (otherwise pruning removes it)",
    "node values are ints returned by zero-argument calls; opaque arguments: Box (object holding a Node), list subclass, tuple subclass",
]

FUNCS = ["uberjob.graph.get_argument_nodes", "uberjob.Plan._call", "uberjob.Plan._gather", "uberjob.Plan.gather", "uberjob.Plan.call",
         "uberjob.Plan.lit", "uberjob.Plan.unpack", "uberjob.Plan.copy", "uberjob._builtins.gather_list/tuple/set/dict",
         "uberjob._builtins.unpack", "uberjob.run", "uberjob._transformations.pruning.prune_plan",
         "uberjob._execution.run_physical.prep_run_physical", "uberjob._execution.run_physical.BoundCall.run",
         "uberjob._execution.run_physical.run_physical"]


def _cond(func, env, label, timeout):
    return xhrun.Cond(MOD, func, env, timeout=timeout, label=label)


def conditions(tier):
    q = tier == "quick"
    T = 480 if q else 1500
    cs = []
    # ---- (1) get_argument_nodes
    modes = ["ins", "copy0", "copy2"] if q else ["ins", "copy0", "copy1", "copy2"]
    for pk in ["sym3", "4,0", "3,1", "2,2", "1,3", "0,4"]:
        for mode in modes:
            if mode == "copy1" and pk not in ("sym3", "2,2"):
                continue
            cs.append(_cond("c02_argnodes", {"XH_PK": pk, "XH_MODE": mode, "XH_VARIANTS": "quick" if q else "full"},
                            f"argnodes_pk{pk.replace(',', '-')}_{mode}", T))
    # ---- (2a) run(output=structure)
    base = {"XH_G": 2, "XH_HDOM": 2, "XH_POOR": "min"} if q else {"XH_G": 3, "XH_HDOM": 3, "XH_POOR": "std"}

    def out(root, rich, width=None, chunk=None, b=base):
        env = dict(b, XH_ROOT=root, XH_RICH=",".join(str(r) for r in rich))
        lab = f"output_{root}_rich{'-'.join(str(r) for r in rich)}_g{b['XH_G']}"
        if width:
            env["XH_WIDTH"] = width
            lab += f"_w{width}"
        if chunk:
            env["XH_CHUNK"] = chunk
            lab += f"_c{chunk.replace('/', 'of')}"
        cs.append(_cond("c02_output", env, lab, T))

    out("slot", [0])
    def outc(root, rich, width, n):
        if n == 1:
            return out(root, rich, width=width)
        for i in range(n):
            out(root, rich, width=width, chunk=f"{i}/{n}")

    m = 1 if q else 3  # thorough option lists are ~3x longer
    for root in ("list", "tuple"):
        outc(root, [0], 1, m)
        outc(root, [0], 2, 2 * m)
        outc(root, [1], 2, m)
    out("set", [0])
    out("set", [1], width=2)
    outc("dict", [0], None, m)
    outc("dict", [2], 2, m)
    outc("dict", [1], 1, m)
    outc("dict", [1], 2, 3 * m)
    outc("dict", [3], 2, 2 * m)
    if not q:
        g2 = {"XH_G": 2, "XH_HDOM": 2, "XH_POOR": "std"}
        for root in ("list", "tuple"):
            for i in range(6):
                out(root, [0, 1], width=2, chunk=f"{i}/6", b=g2)
        out("set", [0, 1], width=2, b=g2)
        out("dict", [0, 2], width=2, b=g2)
        out("dict", [0, 1], width=1, b=g2)
    # ---- (2b) what the call function sees
    def call(pk, slots, chunk=None, extra=None):
        env = dict(base, XH_PK=pk, XH_SLOTS=slots)
        lab = f"callargs_pk{pk.replace(',', '-')}_{slots}"
        if chunk:
            env["XH_CHUNK"] = chunk
            lab += f"_c{chunk.replace('/', 'of')}"
        if extra:
            env.update(extra)
            lab += "_" + "_".join(f"{k[3:].lower()}{v}" for k, v in extra.items())
        cs.append(_cond("c02_callargs", env, lab, T))

    big = "medium" if q else "large"
    call("sym1", big)
    for pk in ("2,0", "1,1", "0,2"):
        call(pk, big)
    if q:
        call("eq3", "poor")
    else:
        for pk in ("3,0", "2,1", "1,2", "0,3"):
            for i in range(5):
                call(pk, "medium", chunk=f"{i}/5")
        call("eq3", "poor")
        call("eq4", "poor")
        for pk in ("1,1", "0,2"):
            call(pk, "medium", extra={"XH_ORDER": "fifo"})
    # ---- (4) constants that compare equal but are different values (1 / True / 1.0 ...), in one call and across calls of a plan
    cs.append(_cond("c02_consts", {"XH_CSCOPED": 0}, "equal_but_distinct_constants", T))
    cs.append(_cond("c02_consts", {"XH_CSCOPED": 1}, "equal_but_distinct_constants_scoped", T))
    # ---- (3) unpack
    for kind in range(4):
        cs.append(_cond("c02_unpack", {"XH_KIND": kind}, f"unpack_kind{kind}", T))
        if not q:
            cs.append(_cond("c02_unpack", {"XH_KIND": kind, "XH_UNPACK_N": "sym"}, f"unpack_kind{kind}_symn", T))
    return cs


# ======================================================================================= stub / oracle validation
def _load(env):
    """(Re)import the harness under a concrete case split."""
    for k in list(os.environ):
        if k.startswith("XH_") and k not in ("XH_REAL_ENGINE", "XH_WORKERS", "XH_SCHEDULER"):
            del os.environ[k]
    os.environ.update({k: str(v) for k, v in env.items()})
    sys.modules.pop(MOD, None)
    import harness_eval as H

    return H


LEAVES = [(5, 5, 1, 1, 5, 5, 5, 5, 5, 5, 5, 5, 1, 1, 1, 1), (5, 6, 0, 1, 6, 5, 7, 5, 9, 5, 6, 7, 1, 0, 1, 0)]


def _sweep(stride):
    """Concrete calls of the four harness functions (every `stride`-th input of a systematic enumeration): all must be True.
    Returns (calls, failures)."""
    calls, bad = 0, []
    tick = [0]

    def take():
        tick[0] += 1
        return tick[0] % stride == 0

    def chk(r, what):
        nonlocal calls
        calls += 1
        if r is not True:
            bad.append(what)

    for mode in ("ins", "copy0", "copy1", "copy2"):
        H = _load({"XH_PK": "sym4", "XH_MODE": mode, "XH_VARIANTS": "full"})
        for p in range(5):
            for k in range(5 - p):
                for perm in itertools.permutations(range(4)):
                    for v in range(len(H._variants(p + k))):
                        if take():
                            chk(H.c02_argnodes(p, k, *perm, v), ("argnodes", mode, p, k, perm, v))
    ctxs = {"list": ["free"] * 2, "tuple": ["free"] * 2, "set": ["selem"] * 2, "dict": ["key", "dval"] * 2, "slot": ["free"]}
    for root, widths in (("slot", [0]), ("list", [1, 2]), ("tuple", [1, 2]), ("set", [1, 2]), ("dict", [1, 2])):
        for rich, poor in (("0", "min"), ("1", "min"), ("2", "min"), ("3", "min"), ("0", "std"), ("3", "std"), ("0,1", "std")):
            H = _load({"XH_ROOT": root, "XH_RICH": rich, "XH_HDOM": 2, "XH_POOR": poor})
            for w in widths:
                ns = {"slot": 1, "dict": 2 * w}.get(root, w)
                ranges = [range(len(H._slot_opts(s, ctxs[root][s]))) for s in range(ns)]
                for codes in itertools.product(*ranges):
                    codes = list(codes) + [0] * (4 - len(codes))
                    for leaves in LEAVES:
                        if take():
                            chk(H.c02_output(w, *codes, *leaves), ("output", root, rich, w, codes, leaves))
    H = _load({"XH_PK": "sym3", "XH_SLOTS": "large"})
    for p in range(3):
        for k in range(3 - p):
            for codes in itertools.product(range(len(H.LARGE)), repeat=p + k):
                codes = list(codes) + [0] * (4 - len(codes))
                if take():
                    chk(H.c02_callargs(p, k, *codes, *LEAVES[1]), ("callargs", p, k, codes))
    H = _load({"XH_PK": "sym4", "XH_SLOTS": "poor"})
    for p in range(5):
        for k in range(5 - p):
            for codes in itertools.product(range(3), repeat=p + k):
                codes = list(codes) + [0] * (4 - len(codes))
                if take():
                    chk(H.c02_callargs(p, k, *codes, *LEAVES[0]), ("callargs_poor", p, k, codes))
    for un in ("pick", "sym"):
        H = _load({"XH_UNPACK_N": un})
        for n in range(5):
            for m in range(6):
                for kind in range(4):
                    chk(H.c02_unpack(n, m, kind, 3, 1, 4, 1, 5), ("unpack", un, n, m, kind))
    return calls, bad


def _oracle_cases():
    """The reference interpreter against direct evaluations written out by hand.  Returns (cases, failures)."""
    H = _load({})
    bad, n = [], 0

    def chk(cond, what):
        nonlocal n
        n += 1
        if not cond:
            bad.append(what)

    c = H.Ctx(5, 6, 0, 1, [10, 11, 12, 13], [0, 1])
    a, b = c.nA, c.nB
    free = [1, 2]
    box, ml, mt = H.Box(a), H.MyList([a, 7]), H.MyTuple((a, 7))
    lit = c.plan.lit("L")
    c.vals.append((lit, "L"))
    table = [
        (a, 5), ([a, b], [5, 6]), ((a, 1), (5, 1)), ([a, free], [5, free]), ({a, 9}, {5, 9}), ((), ()),
        (dict([(a, 1), (b, 2)]), {5: 1, 6: 2}), (dict([("k", a), ("j", [b])]), {"k": 5, "j": [6]}),
        ([lit, a], ["L", 5]), ([box, a], [box, 5]), ([ml, a], [ml, 5]), ((mt, a), (mt, 5)), ([[a], (b,)], [[5], (6,)]),
        (dict([((a, 1), b)]), {(5, 1): 6}), ([{a}, dict([(1, a)])], [{5}, {1: 5}]),
    ]
    for spec, exp in table:
        got = H.evaluate(c, spec)
        chk(got == exp and type(got) is type(exp), ("evaluate", repr(exp)))
        chk(H.matches(c, spec, exp), ("matches", repr(exp)))
    # colliding keys: {f(): 'x', g(): 'y'} with f() == g() evaluates to one entry holding the LAST value
    c2 = H.Ctx(5, 5, 0, 1, [], [])
    spec = dict([(c2.nA, "x"), (c2.nB, "y")])
    chk(H.evaluate(c2, spec) == {5: "y"}, "collide evaluate")
    chk(H.matches(c2, spec, {5: "y"}) and not H.matches(c2, spec, {5: "x"}), "collide matches")
    # the oracle must reject: wrong container type, copied node-free object, wrong dict order, recursion into a subclass
    chk(not H.matches(c, [a, b], (5, 6)), "type list/tuple")
    chk(not H.matches(c, [a, free], [5, [1, 2]]), "identity of node-free list")
    chk(not H.matches(c, free, [1, 2]), "identity of node-free root")
    chk(not H.matches(c, dict([(a, 1), (b, 2)]), {6: 2, 5: 1}), "dict order")
    chk(not H.matches(c, [ml, a], [[5, 7], 5]), "subclass rebuilt")
    chk(not H.matches(c, [box, a], [H.Box(a), 5]), "opaque object replaced")
    chk(not H.matches(c, [a, b], [5, 7]), "wrong value")
    chk(not H.matches(c, {a, 9}, [5, 9]), "set type")
    chk(H._perm([30, 10, 20]) == [1, 2, 0] and H._perm([]) == [] and H._perm([1, 2, 3, 0]) == [3, 0, 1, 2], "_perm")
    chk(H._pick(2, 3) == 2 and H._pick(3, 3) is None and H._pick(-1, 3) is None, "_pick")
    return n, bad


def _sensitivity():
    """Sabotage uberjob IN MEMORY (never on disk) and require the harness to return False on a relevant concrete input:
    shows the oracles are not vacuous.  Returns (sabotages, not-noticed list)."""
    import uberjob._plan as plan_mod
    import uberjob._execution.run_physical as rp
    import uberjob.graph as gmod
    from uberjob import _builtins as bi

    missed, n = [], 0

    def expect_false(H, fn, args, what):
        nonlocal n
        n += 1
        try:
            r = getattr(H, fn)(*args)
        except Exception:
            r = False
        if r is not False:
            missed.append(what)

    L0 = LEAVES[1]
    # 1 list rebuilt as a tuple
    H = _load({"XH_ROOT": "list", "XH_RICH": "0", "XH_WIDTH": 1})
    orig = plan_mod.GATHER_LOOKUP[list]
    plan_mod.GATHER_LOOKUP[list] = bi.gather_tuple
    expect_false(H, "c02_output", (1, 1, 0, 0, 0) + L0, "list->tuple")
    plan_mod.GATHER_LOOKUP[list] = orig
    # 2 gather recursing into subclasses (isinstance instead of exact type)
    orig_get = plan_mod.GATHER_LOOKUP

    class Loose(dict):
        def get(self, t, d=None):
            for k, v in self.items():
                if issubclass(t, k):
                    return v
            return d

    plan_mod.GATHER_LOOKUP = Loose(orig_get)
    H = _load({"XH_ROOT": "slot", "XH_RICH": "0"})
    idx = H.FREE_RICH.index(("L", H.MYLIST))
    expect_false(H, "c02_output", (0, idx, 0, 0, 0) + L0, "subclass recursion")
    plan_mod.GATHER_LOOKUP = orig_get
    # 3 keyword arguments sorted by name
    orig_gan = rp.get_argument_nodes

    def sorted_kw(graph, call):
        a, kw = orig_gan(graph, call)
        return a, dict(sorted(kw.items()))

    rp.get_argument_nodes = sorted_kw
    H = _load({"XH_PK": "0,3", "XH_SLOTS": "poor"})  # names b, d, a
    expect_false(H, "c02_callargs", (0, 3, 0, 0, 0, 0) + L0, "kwargs sorted by name")
    rp.get_argument_nodes = orig_gan
    # 4 positional arguments reversed
    def rev_args(graph, call):
        a, kw = orig_gan(graph, call)
        return a[::-1], kw

    rp.get_argument_nodes = rev_args
    H = _load({"XH_PK": "2,0", "XH_SLOTS": "poor"})
    expect_false(H, "c02_callargs", (2, 0, 0, 1, 0, 0) + L0, "args reversed")
    rp.get_argument_nodes = orig_gan
    # 5 node-free argument copied instead of passed as is
    orig_lit = plan_mod.Plan.lit

    def copying_lit(self, value):
        return orig_lit(self, list(value) if type(value) is list else value)

    plan_mod.Plan.lit = copying_lit
    H = _load({"XH_PK": "1,0", "XH_SLOTS": "medium"})
    idx = H.MEDIUM.index(("C", H.LIST, (H.CONST, H.CONST)))
    expect_false(H, "c02_callargs", (1, 0, idx, 0, 0, 0) + L0, "node-free list copied")
    plan_mod.Plan.lit = orig_lit
    # 6 unpack that silently truncates / pads
    orig_unpack = bi.unpack
    H = _load({})
    def lax(iterable, length):
        t = tuple(itertools.islice(iterable, length))
        return t + (None,) * (length - len(t))

    bi.unpack = lax
    expect_false(H, "c02_unpack", (2, 3, 1, 3, 1, 4, 1, 5), "unpack too many accepted")
    expect_false(H, "c02_unpack", (3, 1, 2, 3, 1, 4, 1, 5), "unpack too few accepted")
    bi.unpack = orig_unpack
    # 7 get_argument_nodes in enumeration order instead of by index
    orig = gmod.get_argument_nodes
    H = _load({"XH_PK": "2,2", "XH_MODE": "ins"})

    def enum_order(graph, call):
        a, kw = [], {}
        for pred, _, key in graph.in_edges(call, keys=True):
            if type(key) is gmod.PositionalArg:
                a.append(pred)
            elif type(key) is gmod.KeywordArg:
                kw[key.name] = pred
        return a, kw

    H.get_argument_nodes = enum_order
    expect_false(H, "c02_argnodes", (2, 2, 3, 2, 1, 0, 0), "enumeration order")
    # 8 dict collisions: first value wins instead of last
    orig_gd = plan_mod.GATHER_LOOKUP[dict]

    def first_wins(*pairs):
        d = {}
        for k, v in pairs:
            d.setdefault(k, v)
        return d

    plan_mod.GATHER_LOOKUP[dict] = first_wins
    H = _load({"XH_ROOT": "dict", "XH_RICH": "0", "XH_WIDTH": 2, "XH_POOR": "std"})
    ia, ib = H.KEY_RICH.index(("L", H.NODE_A)), H.POOR3.index(("L", H.NODE_B))
    expect_false(H, "c02_output", (2, ia, 0, ib, 0) + (5, 5, 0, 1, 1, 2, 3, 4, 5, 6, 7, 8, 0, 1, 0, 1), "dict first value wins")
    plan_mod.GATHER_LOOKUP[dict] = orig_gd
    return n, missed


def _validate():
    """Entry point of the validation subprocess: prints one JSON line."""
    sys.path.insert(0, XHDIR)
    out = {}
    if os.environ.get("XH_REAL_ENGINE") == "1":
        calls, bad = _sweep(int(os.environ.get("VALIDATE_STRIDE", "23")))
        out = {"real_engine_calls": calls, "real_engine_failures": bad[:5]}
    else:
        calls, bad = _sweep(int(os.environ.get("VALIDATE_STRIDE", "7")))
        n2, bad2 = _oracle_cases()
        n3, missed = _sensitivity()
        out = {"seq_engine_calls": calls, "seq_engine_failures": bad[:5], "oracle_cases": n2, "oracle_failures": bad2[:5],
               "sabotages": n3, "sabotages_missed": missed}
    print("VALIDATION " + json.dumps(out, default=str))


def run_validation():
    """Three cheap concrete subprocesses: (a) harness + oracle on the sequential stand-in, oracle table, sabotage;
    (b) the same harness inputs on uberjob's REAL thread engine with 4 workers (stand-in vs real thing);
    (c) as (b) with scheduler='random'."""
    res, errs = {}, []
    base = dict(os.environ, VERIF_SRC=C.SRC, PYTHONPATH=os.pathsep.join([XHDIR, C.VERIF]), PYTHONHASHSEED="0")
    base[C.GUARD] = "1"
    for name, extra in (("stub", {}), ("real4", {"XH_REAL_ENGINE": "1", "XH_WORKERS": "4", "VALIDATE_STRIDE": "61"}),
                        ("real4_random", {"XH_REAL_ENGINE": "1", "XH_WORKERS": "3", "XH_SCHEDULER": "random", "VALIDATE_STRIDE": "97"})):
        env = dict(base, **extra)
        for k in list(env):
            if k.startswith("XH_") and k not in extra:
                del env[k]
        try:
            p = subprocess.run([C.PY, "-c", "from checks import eval_checks as m; m._validate()"], cwd=C.VERIF, env=env,
                               capture_output=True, text=True, timeout=600)
            line = [ln for ln in p.stdout.splitlines() if ln.startswith("VALIDATION ")]
            if p.returncode != 0 or not line:
                errs.append(f"{name}: rc={p.returncode} {(p.stdout + p.stderr)[-400:]}")
                continue
            res[name] = json.loads(line[-1][len("VALIDATION "):])
        except subprocess.TimeoutExpired:
            errs.append(f"{name}: timeout")
    for name, r in res.items():
        for key in ("seq_engine_failures", "real_engine_failures", "oracle_failures", "sabotages_missed"):
            if r.get(key):
                errs.append(f"{name}: {key}={r[key]}")
    return res, errs


# ======================================================================================= main
def main(pid):
    if pid != "C02":
        raise SystemExit(f"no check for {pid}")
    tier = C.tier()
    ev = C.Evidence(pid, "other")
    ev.assumptions = list(STUBS)
    cov = ev.coverage
    C.ensure_venv()
    conds = conditions(tier)
    cfut = contract.start(pid)
    with ThreadPoolExecutor(max_workers=1) as ex:  # the concrete validation runs beside the solver conditions
        fut = ex.submit(run_validation)
        results = xhrun.run_conditions(pid, conds)
        val, verrs = fut.result()
    cov["stub_validation"] = val
    cov["stub_validations_run"] = sum(v.get(k, 0) for v in val.values()
                                      for k in ("seq_engine_calls", "real_engine_calls", "oracle_cases", "sabotages"))
    code = xhrun.summarize(pid, results, ev)
    code = contract.finish(pid, cfut, ev, code)
    if verrs:
        # on a changed tree the concrete sweep may well see the change first; the verdict stays with the solver:
        # a VIOLATION needs a solver model that replays, so validation problems can only turn 0 into 3.
        for e in verrs:
            print(f"VALIDATION-PROBLEM property={pid} {e[:400]}", flush=True)
        if code == C.EXIT_OK:
            print(f"HARNESS-ERROR property={pid} stub/oracle validation failed although every condition was confirmed", flush=True)
            code = C.EXIT_HARNESS
    groups = {}
    for r in results:
        g = r["label"].split("_")[0]
        d = groups.setdefault(g, {"conditions": 0, "confirmed": 0, "paths": 0, "cpu_s": 0.0, "max_s": 0.0})
        d["conditions"] += 1
        d["confirmed"] += r["status"] == "confirmed"
        d["paths"] += r["main"]["paths"]
        d["cpu_s"] = round(d["cpu_s"] + r["main"]["seconds"] + r.get("twin", {}).get("seconds", 0), 1)
        d["max_s"] = max(d["max_s"], r["main"]["seconds"])
    cov["per_harness"] = groups
    cov["functions_under_test"] = FUNCS
    cov["oracle"] = ("reference interpreter in the harness (has_node / evaluate / matches, ~60 lines): direct evaluation of the argument "
                     "expression; identity for node-free parts, exact container types, dict key order + last value wins, kwargs order "
                     "as seen by **kwargs, call executed exactly once; get_argument_nodes: by-index expectation, dict ORDER compared")
    cov["explanation"] = (
        "bounded symbolic execution of the real uberjob code with CrossHair: for each condition CrossHair enumerates every feasible path "
        "of the harness and z3 discharges each path condition ('Confirmed over all paths'). The SHAPE of the argument/output structure, "
        "the argument counts and the graph-edit variant are small finite codes: that dimension is exhausted path by path (it is an "
        "enumeration carried out by the solver's path search, not symbolic reasoning); symbolic on every path: leaf values and node "
        "values (unbounded ints, except leaves hashed by set(): 2-3 values), and the distinct sort keys that fix edge insertion order and "
        "node creation order (all n! orders). One sequential engine stand-in: schedules are NOT covered here. Not a proof for all plans.")
    cov["rule"] = ("one obligation per (harness function, case split); discharged = CrossHair 'Confirmed over all paths' AND the vacuity twin "
                   "(final verdict forced False) yields a model whose concrete replay returns True")
    cov["distinct_nontrivial"] = sum(1 for r in results if r["status"] == "confirmed" and r["main"]["paths"] > 1)
    cov["bounds"] = ("get_argument_nodes: p+k<=4 edges, all insertion/creation orders, <=1 re-add, <=1 Dependency edge, shared predecessors; "
                     "structures: depth<=2, width<=2, 7 leaf kinds x 4 container kinds, option lists per slot: rich "
                     f"{'49' if tier == 'quick' else '137 (G=3) / 49 (G=2 both-rich)'} / key 13+ / poor 2-3; call: p+k<="
                     f"{'3' if tier == 'quick' else '4'}; unpack n<=4, m<=5, 4 iterable kinds; W=1 sequential engine. Conditions: "
                     + ", ".join(r["label"] for r in results))[:3000]
    cov["checker_cmd"] = ("crosshair check --report_all --per_condition_timeout T --per_path_timeout T/4 harness_eval.<fn> "
                          "(one process per condition, env = case split), z3 backend; models replayed by replays/C02/*.py without CrossHair")
    cov["trusted_base"] = ["CrossHair 0.0.110", "z3 (crosshair's)", "CPython 3.12", "networkx (untraced)",
                           "harness stubs and oracle listed in assumptions (validated concretely each run: stub_validation)"]
    cov["not_covered"] = ["scheduler None/'default'/'random' and max_workers > 1 (sequential stand-in only; delegated to the E2 engine check "
                          "C01/C04; seeded change C02_m2 belongs there)", "registry / stores (C03/C05)", "retry", "strings / floats as leaves",
                          "containers deeper than 2 or wider than 2", "more than 4 arguments"]
    ev.write()
    print(f"{pid} {tier}: {cov['discharged']}/{cov['obligations']} conditions discharged, {cov['crosshair_paths']} paths, "
          f"{cov['stub_validations_run']} validation runs, exit {code}")
    return code
