"""E3 lemma for C20: 'the elapsed time attributed to scopes adds up to the wall-clock time during which at least one call was
running' -- decided by z3 over linear real arithmetic on terms produced by the REAL State methods.

How: the source of uberjob/progress/_simple_progress_observer.py is re-read from <src> and executed as a private module copy
whose `time.time()` returns the current value of a clock made of z3 Real terms.  State.increment_running / _completed /
_failed / update_weighted_elapsed are then simply CALLED: Python's operator overloading makes them compute z3 terms for
weighted_elapsed (the counts are concrete ints per history, which keeps every term linear; a branch on a symbolic value
raises -> inconclusive, never a pass).  For every C15-legal notification history of at most K events over S scopes with T
calls each (enumerated -- this is the stated bound) and symbolic gaps d_i >= 0 between the events, followed by a render
(update_weighted_elapsed): assert  sum(weighted_elapsed) != busy  and expect `unsat`.
A `sat` model is replayed on the real, unmodified module with exact rational (fractions.Fraction) clock readings.
Floats are treated as reals (stated): rounding error of the float arithmetic is outside the claim.
"""
import json
import os
import sys
import time as _time
import types
from fractions import Fraction

import z3


def legal_histories(kmax, nscope, total):
    out = []

    def rec(h, running, finished):
        out.append(list(h))
        if len(h) == kmax:
            return
        for s in range(nscope):
            if running[s] + finished[s] < total:
                running[s] += 1
                h.append(("r", s))
                rec(h, running, finished)
                h.pop()
                running[s] -= 1
            if running[s] > 0:
                for kind in "cf":
                    running[s] -= 1
                    finished[s] += 1
                    h.append((kind, s))
                    rec(h, running, finished)
                    h.pop()
                    finished[s] -= 1
                    running[s] += 1

    rec([], [0] * nscope, [0] * nscope)
    return out


class Clock:
    def __init__(self, zero):
        self.now = zero

    def time(self):
        return self.now


def load_copy(src, clock):
    path = os.path.join(src, "uberjob", "progress", "_simple_progress_observer.py")
    sys.path.insert(0, src)
    mod = types.ModuleType("spo_lemma_copy")
    code = compile(open(path).read(), path, "exec")
    exec(code, mod.__dict__)
    mod.__dict__["time"] = clock
    return mod


def play(mod, clock, h, gaps, nscope, total, zero):
    """Run history h on a fresh real State; returns (sum of weighted_elapsed, busy, running_count, expected running count)."""
    clock.now = zero
    st = mod.State(clock.time())
    for s in range(nscope):
        st.increment_total("run", ("s", s), total)
    busy, rc = zero, 0
    for i, (kind, s) in enumerate(h):
        clock.now = clock.now + gaps[i]
        if rc > 0:
            busy = busy + gaps[i]
        if kind == "r":
            st.increment_running("run", ("s", s))
            rc += 1
        elif kind == "c":
            st.increment_completed("run", ("s", s))
            rc -= 1
        else:
            st.increment_failed("run", ("s", s))
            rc -= 1
    clock.now = clock.now + gaps[len(h)]
    if rc > 0:
        busy = busy + gaps[len(h)]
    st.update_weighted_elapsed()  # what _do_render does before it renders
    sum_we = zero
    for s in range(nscope):
        sum_we = sum_we + st.section_scope_mapping["run"][("s", s)].weighted_elapsed
    return sum_we, busy, st.running_count, rc


def run(src, kmax=5, nscope=2, total=2):
    t0 = _time.time()
    zero = z3.RealVal(0)
    clock = Clock(zero)
    mod = load_copy(src, clock)
    gaps = [z3.Real(f"d{i}") for i in range(kmax + 1)]
    solver = z3.Solver()
    solver.set("timeout", 60000)
    for g in gaps:
        solver.add(g >= 0)
    hist = legal_histories(kmax, nscope, total)
    res = {"histories": len(hist), "unsat": 0, "sat": [], "inconclusive": [], "kmax": kmax, "nscope": nscope, "total": total}
    # vacuity witness: some history really is busy for a positive time
    witness = False
    for h in hist:
        try:
            sum_we, busy, rc_real, rc = play(mod, clock, h, gaps, nscope, total, zero)
        except Exception as e:  # e.g. a branch on a symbolic value
            res["inconclusive"].append({"history": h, "why": f"{type(e).__name__}: {e}"[:300]})
            continue
        if rc_real != rc:
            res["sat"].append({"history": h, "gaps": [1] * (len(h) + 1), "why": "running_count differs from the number of running calls"})
            continue
        solver.push()
        solver.add(sum_we != busy)
        r = solver.check()
        if str(r) == "unsat":
            res["unsat"] += 1
            if not witness and h:
                solver.pop()
                solver.push()
                solver.add(busy > 0, sum_we == busy)
                witness = str(solver.check()) == "sat"
        elif str(r) == "sat":
            m = solver.model()
            vals = []
            for g in gaps[: len(h) + 1]:
                v = m.eval(g, model_completion=True)
                vals.append(str(Fraction(v.numerator_as_long(), v.denominator_as_long())))
            res["sat"].append({"history": h, "gaps": vals, "why": "sum(weighted_elapsed) != busy"})
        else:
            res["inconclusive"].append({"history": h, "why": f"solver: {r}"})
        solver.pop()
    res["witness_busy_history"] = witness
    res["solver_s"] = round(_time.time() - t0, 2)
    return res


def replay(src, h, gaps, nscope, total):
    """Exact replay on the real module (time.time patched to rational readings). Returns (sum_we, busy) as Fractions."""
    sys.path.insert(0, src)
    import uberjob.progress._simple_progress_observer as real

    assert real.__file__.startswith(src), real.__file__
    clock = Clock(Fraction(0))
    old = real.time
    real.time = clock
    try:
        sum_we, busy, rc_real, rc = play(real, clock, [tuple(e) for e in h], [Fraction(g) for g in gaps], nscope, total, Fraction(0))
    finally:
        real.time = old
    return sum_we, busy, rc_real, rc


if __name__ == "__main__":
    if sys.argv[1] == "replay":
        d = json.load(open(sys.argv[2]))
        sum_we, busy, rc_real, rc = replay(d["src"], d["history"], d["gaps"], d["nscope"], d["total"])
        print(f"history {d['history']} gaps {d['gaps']}: sum(weighted_elapsed) = {sum_we} ({float(sum_we)}), busy = {busy} ({float(busy)}), running_count {rc_real} vs {rc}")
        sys.exit(10 if (sum_we != busy or rc_real != rc) else 0)
    print(json.dumps(run(sys.argv[1], int(sys.argv[2]) if len(sys.argv) > 2 else 5)))
