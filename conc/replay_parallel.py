#!/usr/bin/env python3
"""Replay of a 'parallelism lost' verdict: run the real engine with calls that wait until `want` of them are in flight together."""
import json
import sys
import threading
import time

spec = json.load(open(sys.argv[1]))
sys.path.insert(0, spec["src"])
import networkx as nx  # noqa: E402

import uberjob._execution.run_function_on_graph as R  # noqa: E402

assert R.__file__.startswith(spec["src"])
g = nx.MultiDiGraph()
for i in range(spec["N"]):
    g.add_node(i)
for a, b in spec["edges"]:
    g.add_edge(a, b)
lock = threading.Lock()
state = {"in": 0, "max": 0}
cv = threading.Condition(lock)


def fn(node):
    with cv:
        state["in"] += 1
        state["max"] = max(state["max"], state["in"])
        cv.notify_all()
        t0 = time.time()
        while state["max"] < spec["want"] and time.time() - t0 < 1.5:
            cv.wait(0.05)
    with cv:
        state["in"] -= 1


R.run_function_on_graph(g, fn, worker_count=spec["W"], scheduler="random")
print(f"max calls in flight together: {state['max']} (wanted {spec['want']})")
sys.exit(10 if state["max"] < spec["want"] else 0)
