"""Run the BMC queries of one E2 instance (own process). stdin/argv: JSON spec; stdout: JSON result.

spec: {name, src, N, W, graph: [[i,j],..]|null, K, opts:{...}, bits:[bad bit names], witnesses:[names], max_k_bumps}
"""
import json
import os
import sys
import time

sys.path.insert(0, os.path.dirname(os.path.dirname(os.path.abspath(__file__))))

import z3  # noqa: E402

from conc.bmc import BMC  # noqa: E402
from conc.encode import AND, BAD_BITS, NOT, OR, Encoder, Options, bv  # noqa: E402
from conc.frontend import Frontend, Unsupported  # noqa: E402

SANITY_BITS = ["lock_misuse", "overflow", "task_done_underflow", "too_many_threads", "fn_on_sentinel", "reduction_assumption"]


def sources(src):
    out = {"rfg": open(os.path.join(src, "uberjob/_execution/run_function_on_graph.py")).read()}
    return out


def model_values(enc, m):
    N = enc.N
    adj = [[i, j] for (i, j), v in enc.adjv.items() if z3.is_true(m.eval(v, model_completion=True))]
    outc = [m.eval(o, model_completion=True).as_long() for o in enc.outcome]
    return {
        "N": N, "W": enc.W, "edges": adj, "outcomes": outc,
        "max_errors": None if z3.is_true(m.eval(enc.maxerr_none, model_completion=True)) else m.eval(enc.maxerr, model_completion=True).as_long(),
        "done_first": enc.opts.done_first,
    }


def replay_info(enc):
    main = enc.progs["main"]
    locks = []
    for i in main.instrs.values():
        if i.op == "env" and i.a[0] == "method" and i.a[2] == "Lock":
            names = [j.dst for j in main.instrs.values() if j.op == "store" and j.line == i.line]
            locks.append((i.line, names[0] if names else f"lock@{i.line}"))
    gated_vars = sorted(q for (k, q) in enc.shared_mut if k == "var" and (k, q) not in enc.protected)
    gated_maps = sorted(q for (k, q) in enc.shared_mut if k == "map" and (k, q) not in enc.protected)
    map_lines = sorted({i.line for p in enc.progs.values() if p for i in p.instrs.values() if i.op in ("loadmap", "storemap") and i.a[0] in gated_maps})
    iter_lines = {}
    for p in enc.progs.values():
        for i in (p.instrs.values() if p else ()):
            if i.op == "iternext" and i.label in enc.fe.iter_src and enc.fe.iter_src[i.label] in gated_vars:
                iter_lines[str(i.line)] = enc.fe.iter_src[i.label]
    return {"lock_names_in_creation_order": [n for _, n in sorted(set(locks))], "gated_vars": gated_vars, "gated_maps": gated_maps, "map_lines": map_lines,
            "iter_lines": iter_lines}


def witness_formula(b, name):
    enc, f = b.enc, b.final
    sc = f.sc
    ended = enc.main_ended(f)
    nobad = NOT(b.bad_any())
    if name == "all_ran":
        return AND(ended, nobad, *[sc["g_started"][i] == 1 for i in range(enc.N)], NOT(sc["g_anyfail"]))
    if name == "failure_raised":
        return AND(ended, nobad, sc["g_anyfail"])
    if name == "parallel":
        return AND(ended, nobad, sc["g_maxinflight"] == bv(min(enc.W, b.width)))
    if name == "interrupted":
        return AND(ended, nobad, sc["interrupted"])
    if name == "start_refused":
        # (run raises the RuntimeError here, which the C06 bits would call a spurious error: only the termination bits count)
        return AND(ended, sc["start_failed"], NOT(b.bad_any([n for n in BAD_BITS if n.startswith("c07_")] + SANITY_BITS)))
    if name == "cycle_rejected":
        return AND(ended, nobad, enc.cyclic)
    raise KeyError(name)


def run(spec):
    t0 = time.time()
    res = {"name": spec["name"], "N": spec["N"], "W": spec["W"], "queries": [], "status": "ok"}
    try:
        fe = Frontend(sources(spec["src"]))
        opts = Options(**spec.get("opts", {}))
        graph = None if spec.get("graph") is None else {tuple(e) for e in spec["graph"]}
        enc = Encoder(fe, spec["N"], spec["W"], graph=graph, opts=opts)
        res["fused"] = enc.fuse_report
        res["functions_encoded"] = sorted({i.fn for p in enc.progs.values() if p for i in p.instrs.values() if i.fn})
        res["ir_instructions"] = {k: len(p.instrs) for k, p in enc.progs.items() if p}
        res["step_paths"] = {k: sum(len(v) for v in t.values()) for k, t in enc.paths.items()}
        res["notes"] = fe.notes
        res["replay_info"] = replay_info(enc)
    except Unsupported as e:
        res["status"] = "unsupported"
        res["detail"] = str(e)
        return res
    K = spec["K"]
    width = spec["N"]
    if graph is not None:
        # largest set of pairwise independent nodes (antichain), brute force (N <= 4)
        import itertools
        reach = set(graph)
        ch = True
        while ch:
            ch = False
            for (a, b_) in list(reach):
                for (c, d) in list(reach):
                    if b_ == c and (a, d) not in reach:
                        reach.add((a, d))
                        ch = True
        width = max(len(sub) for r_ in range(1, spec["N"] + 1) for sub in itertools.combinations(range(spec["N"]), r_)
                    if all((x, y) not in reach and (y, x) not in reach for x in sub for y in sub if x != y))
    res["width"] = width
    bits = spec["bits"] + SANITY_BITS
    # Safety first: a bad state reachable within K steps is a genuine counterexample whatever the completeness threshold turns out
    # to be.  Only when safety is unsat at K does the unwinding query decide whether K covers every schedule (else K is bumped).
    for bump in range(spec.get("max_k_bumps", 3) + 1):
        try:
            b = BMC(enc)
            tb = time.time()
            b.unroll(K)
            res["unroll_s"] = round(time.time() - tb, 1)
        except Unsupported as e:
            res["status"] = "unsupported"
            res["detail"] = str(e)
            return res
        b.width = width
        r, dt, m = b.query(b.bad_any(bits))
        res["queries"].append({"q": "safety", "K": K, "bits": bits, "result": r, "solver_s": round(dt, 2)})
        if r == "sat":
            res["status"] = "counterexample"
            res["K"] = K
            res["bad"] = [n for n in BAD_BITS if z3.is_true(m.eval(b.final.bad[n], model_completion=True))]
            res["trace"] = b.trace(m)
            res["model"] = model_values(enc, m)
            res["wall_s"] = round(time.time() - t0, 1)
            return res
        if r != "unsat":
            res["status"] = "unknown"
            return res
        if enc.saw_nodelist:
            # node lists are modelled as sets: a schedule in which one gets the same node twice (or None is iterated) is outside the
            # model -- no verdict for this instance then (only code that builds node lists can get here; the pinned source has none)
            r, dt, m = b.query(b.bad_any(["nodelist_misuse"]))
            res["queries"].append({"q": "model-limit:nodelist", "K": K, "result": r, "solver_s": round(dt, 2)})
            if r != "unsat":
                res["status"] = "unsupported"
                res["detail"] = "a list of nodes can hold the same node twice (lists are modelled as sets): outside the model"
                return res
        r, dt, m = b.query(b.unfinished())
        res["queries"].append({"q": "unwinding", "K": K, "result": r, "solver_s": round(dt, 2)})
        if r == "unsat":
            break
        if r == "sat":
            # K too small (or a genuine non-termination / livelock): keep the trace of the last attempt and deepen
            res["unwinding_trace"] = b.trace(m)
            res["unwinding_model"] = model_values(enc, m)
            K += 4
            continue
        res["status"] = "unknown"
        return res
    else:
        res["status"] = "unwinding_failed"
        res["detail"] = f"some schedule is still running after {K - 4} steps (and no bad state within them): non-termination, or the step bound is too small"
    res["K"] = K
    for wname in spec.get("witnesses", []):
        r, dt, m = b.query(witness_formula(b, wname))
        res["queries"].append({"q": "witness:" + wname, "K": K, "result": r, "solver_s": round(dt, 2)})
        if r == "unsat" and wname == "parallel" and res["status"] == "ok":
            # proven for every schedule: fewer than min(W, width) calls are ever in flight together
            res["status"] = "parallelism_lost"
            res["detail"] = f"no schedule has {min(spec['W'], width)} calls in flight at once"
        elif r != "sat" and res["status"] == "ok":
            res["status"] = "vacuous"
            res["detail"] = f"witness {wname} is {r}"
        elif r == "sat" and wname == spec.get("sample_witness"):
            res["sample_trace"] = b.trace(m)
            res["sample_model"] = model_values(enc, m)
    res["wall_s"] = round(time.time() - t0, 1)
    return res


if __name__ == "__main__":
    spec = json.loads(sys.argv[1]) if len(sys.argv) > 1 else json.load(sys.stdin)
    print(json.dumps(run(spec), default=str))
