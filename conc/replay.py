#!/usr/bin/env python3
"""Replay a BMC model (graph, outcomes, schedule) against the REAL run_function_on_graph on real threads.

usage: replay.py <replay.json>     exit 0: property held on this schedule; 10: violation reproduced; 12: schedule diverged
The controller serialises the real threads at the run-time hooks corresponding to the model's visible operations:
queue get/put/task_done/join, Lock acquire/release, Thread start/join, the user function's entry/exit, and (through
sys.monitoring INSTRUCTION events) every LOAD_DEREF/STORE_DEREF of an unprotected shared variable and BINARY_SUBSCR/
STORE_SUBSCR on an unprotected shared mapping.  A step of the model may start only when every earlier step is complete.
"""
import collections
import dis
import json
import os
import queue as queue_mod
import sys
import threading
import time

spec = json.load(open(sys.argv[1]))
sys.path.insert(0, spec["src"])
import networkx as nx  # noqa: E402

import uberjob._execution.run_function_on_graph as R  # noqa: E402
from uberjob._errors import NodeError  # noqa: E402

assert R.__file__.startswith(spec["src"]), R.__file__
FILE = R.__file__
M = spec["model"]
N, W = M["N"], M["W"]
TRACE = spec["trace"]
WAIT = float(os.environ.get("REPLAY_WAIT", "3"))
HOLD = float(os.environ.get("REPLAY_HOLD", "8"))  # longest time a thread with nothing scheduled is held back


class Ctl:
    def __init__(self, trace):
        self.cv = threading.Condition()
        self.free = False
        self.diverged = []
        self.expected = collections.defaultdict(collections.deque)
        self.order = []  # global step index -> thread key (only steps that have at least one gate)
        self.complete = set()
        self.started = -1
        self.last_step_of = {}
        self.arrived = {}
        idx = 0
        for st in trace:
            t = st["thread"]
            if t == "interrupt":
                self.expected["main"].append({"g": "INTERRUPT", "start": True, "step": idx, "at_gate": st.get("at_gate"), "line": st.get("line")})
                self.order.append("main")
                idx += 1
                continue
            gates = st.get("gates", [])
            if not gates:
                continue
            for k, gt in enumerate(gates):
                self.expected[t].append({"g": gt["g"], "start": k == 0, "step": idx, "choice": st.get("choice"), "dir": gt.get("dir")})
            self.order.append(t)
            self.last_step_of[t] = idx
            idx += 1
        self.nsteps = idx
        self.current = {}  # thread -> step it is executing
        self.log = []

    def key(self):
        n = threading.current_thread().name
        return "main" if n == "MainThread" else THREAD_IDS.get(n, n)

    def _turn(self):
        """Index of the next step allowed to start, or None."""
        nxt = self.started + 1
        if nxt >= self.nsteps:
            return None
        for s in range(nxt):
            if s not in self.complete:
                return None
        return nxt

    def _complete_previous(self, t):
        cur = self.current.get(t)
        if cur is not None:
            self.complete.add(cur)

    def gate(self, kind):
        t = self.key()
        with self.cv:
            if self.free:
                return None
            q = self.expected.get(t)
            if not q:
                # nothing (more) is scheduled for this thread: in the model it does not move while the rest of the schedule plays.
                # Hold it here until every step has been played (or the replay has given up), then let it run on -- otherwise a
                # worker the model never schedules would grab work the schedule gives to another thread
                self._complete_previous(t)
                self.cv.notify_all()
                t0 = time.time()
                while not self.free and len(self.complete) < self.nsteps and time.time() - t0 < HOLD:
                    self.cv.wait(0.05)
                    for th, qq in self.expected.items():
                        if not qq:
                            self._complete_previous(th)
                return None
            e = q[0]
            if e["g"] == "INTERRUPT":
                self._complete_previous(t)
                self.cv.notify_all()
                if self._wait_turn(e["step"]):
                    q.popleft()
                    self.started = e["step"]
                    self.complete.add(e["step"])
                    self.current[t] = None
                    self.log.append(("interrupt", kind))
                    EVENTS.append(("interrupt",))
                    self.cv.notify_all()
                    raise KeyboardInterrupt()
                return None
            if e["g"] != kind:
                self.diverged.append({"thread": t, "real": kind, "expected": e})
                self.free = True
                self.cv.notify_all()
                return None
            q.popleft()
            if not e["start"]:
                return e
            self._complete_previous(t)
            self.cv.notify_all()
            if not self._wait_turn(e["step"]):
                return e
            self.started = e["step"]
            self.current[t] = e["step"]
            if not any(x["start"] for x in q):
                # no later step of this thread to detect completion with: completion = its expected list runs empty / thread ends
                pass
            self.log.append((t, kind, e["step"]))
            self.cv.notify_all()
            return e

    def _wait_turn(self, step):
        t0 = time.time()
        while not self.free:
            if self._turn() == step:
                return True
            self.cv.wait(0.05)
            # a thread with no further gates completes its last step when it has consumed everything expected of it
            for th, q in self.expected.items():
                if not q:
                    self._complete_previous(th)
            if time.time() - t0 > WAIT:
                self.diverged.append({"thread": self.key(), "waiting_for_step": step, "started": self.started, "complete": sorted(self.complete)})
                self.free = True
                self.cv.notify_all()
                return False
        return False

    def thread_end(self):
        t = self.key()
        with self.cv:
            self._complete_previous(t)
            self.current[t] = None
            self.cv.notify_all()


THREAD_IDS = {}
EVENTS = []
EV_LOCK = threading.Lock()
ctl = Ctl(TRACE)


def ev(*a):
    with EV_LOCK:
        EVENTS.append(a)


# ------------------------------------------------------------------------------------------ wrappers
class GQueue(queue_mod.Queue):
    """Controlled queue: get returns the item the model chose (any queued item is within the queue contract)."""

    def __init__(self, initial_items):
        super().__init__()
        self.queue = list(initial_items)
        self.unfinished_tasks = len(self.queue)
        self._want = None

    def _qsize(self):
        return len(self.queue)

    def _put(self, item):
        self.queue.append(item)

    def _get(self):
        w = self._want
        self._want = None
        if w is not None:
            for i, x in enumerate(self.queue):
                if (x is R.DONE and w == N) or (x is not R.DONE and x == w):
                    return self.queue.pop(i)
        if spec["model"].get("done_first"):
            for i, x in enumerate(self.queue):
                if x is R.DONE:
                    return self.queue.pop(i)
        return self.queue.pop(0)

    def get(self, *a, **k):
        e = ctl.gate("q.get")
        if e is not None and e.get("dir") is False:
            # the model's step: this timed / non-blocking get times out (the queue is empty at this point of the schedule)
            with self.mutex:
                empty = not self.queue
            if empty:
                raise queue_mod.Empty
        if e is not None and e.get("choice") is not None:
            with self.mutex:
                self._want = e["choice"]
        return super().get(*a, **k)

    def get_nowait(self):
        return self.get(block=False)

    def put(self, item, *a, **k):
        ctl.gate("q.put")
        if item is R.DONE and threading.current_thread() is threading.main_thread():
            ev("main_put_done")
        return super().put(item, *a, **k)

    def task_done(self):
        ctl.gate("q.task_done")
        try:
            return super().task_done()
        except ValueError:
            # queue.Queue: "task_done() called too many times" -- the model's sanity bit, observed on the real queue (the exception
            # goes on to kill the calling thread, as in any real run)
            ev("sanity", "task_done_underflow")
            raise

    def join(self):
        ctl.gate("q.join")
        return super().join()


LOCK_NAMES = list(spec["lock_names_in_creation_order"])
_lock_count = [0]


class GLock:
    def __init__(self):
        i = _lock_count[0]
        _lock_count[0] += 1
        self.name = LOCK_NAMES[i] if i < len(LOCK_NAMES) else f"lock{i}"
        self._l = threading.Lock()

    def __enter__(self):
        ctl.gate("lock.acquire:" + self.name)
        self._l.acquire()
        return self

    def __exit__(self, *a):
        ctl.gate("lock.release:" + self.name)
        self._l.release()
        return False

    def acquire(self, *a, **k):
        ctl.gate("lock.acquire:" + self.name)
        return self._l.acquire(*a, **k)

    def release(self):
        ctl.gate("lock.release:" + self.name)
        return self._l.release()


_thread_count = [0]


class GThread(threading.Thread):
    def __init__(self, target=None, **kw):
        ctl.gate("thread.new")
        idx = _thread_count[0]
        _thread_count[0] += 1
        self.idx = idx

        def body():
            try:
                target()
            finally:
                ev("thread_end", idx)
                ctl.thread_end()

        super().__init__(target=body, name=f"W{idx}", **kw)
        THREAD_IDS[self.name] = idx

    def start(self):
        e = ctl.gate("thread.start")
        if e is not None and e.get("dir") is False:
            ev("start_refused", self.idx)
            raise RuntimeError("can't start new thread")  # the model's step: the operating system refuses this thread
        ev("thread_start", self.idx)
        return super().start()

    def join(self, *a, **k):
        ctl.gate("thread.join")
        return super().join(*a, **k)


class FakeThreading:
    Lock = GLock
    Thread = GThread

    def __getattr__(self, n):
        return getattr(threading, n)


R.threading = FakeThreading()
R.create_queue = lambda graph, initial_items, scheduler: GQueue(initial_items)

# ------------------------------------------------------------------------------------------ opcode tracing of shared accesses
GATED_VARS = set(spec.get("gated_vars", []))
GATED_MAPS = set(spec.get("gated_maps", []))
MAP_LINES = set(spec.get("map_lines", []))
ITER_LINES = dict(spec.get("iter_lines", {}))
_code_cache = {}


def _instrs(code):
    d = _code_cache.get(code)
    if d is None:
        d = {i.offset: i for i in dis.get_instructions(code)}
        _code_cache[code] = d
    return d


HAS_INTERRUPT = any(st.get("thread") == "interrupt" for st in TRACE)


def _on_instruction(code, off):
    ins = _instrs(code).get(off)
    if ins is None:
        return
    if HAS_INTERRUPT and threading.current_thread() is threading.main_thread():
        # an asynchronous KeyboardInterrupt of the model is delivered at the first instruction of its source line that the
        # coordinator reaches once everything before it in the schedule has happened (raising here = raising at that instruction)
        q = ctl.expected.get("main")
        if q and q[0]["g"] == "INTERRUPT" and q[0].get("line") is not None and ins.positions is not None and ins.positions.lineno == q[0]["line"]:
            ctl.gate("line")
    op = ins.opname
    if op == "FOR_ITER" and ITER_LINES and ins.positions is not None and str(ins.positions.lineno) in ITER_LINES:
        ctl.gate(f"iter:{ITER_LINES[str(ins.positions.lineno)]}")
    elif op in ("LOAD_DEREF", "STORE_DEREF") and ins.argval in GATED_VARS:
        ctl.gate(f"var:{ins.argval}:{'load' if op == 'LOAD_DEREF' else 'store'}")
    elif GATED_MAPS and op in ("BINARY_SUBSCR", "STORE_SUBSCR") and ins.positions is not None and ins.positions.lineno in MAP_LINES:
        ctl.gate(f"map:{next(iter(GATED_MAPS))}:{'load' if op == 'BINARY_SUBSCR' else 'store'}")


def _all_codes(c):
    yield c
    for k in c.co_consts:
        if hasattr(k, "co_code"):
            yield from _all_codes(k)


def install_instruction_hooks():
    """Per-instruction callbacks (sys.monitoring, Python 3.12) on every code object of run_function_on_graph.py."""
    if not (GATED_VARS or GATED_MAPS or HAS_INTERRUPT):
        return
    mon = sys.monitoring
    mon.use_tool_id(mon.DEBUGGER_ID, "verif-replay")
    mon.register_callback(mon.DEBUGGER_ID, mon.events.INSTRUCTION, _on_instruction)
    seen = set()
    for name in dir(R):
        f = getattr(R, name)
        f = getattr(f, "__wrapped__", f)
        c = getattr(f, "__code__", None)
        if c is not None and c.co_filename == FILE:
            for k in _all_codes(c):
                if k not in seen:
                    seen.add(k)
                    mon.set_local_events(mon.DEBUGGER_ID, k, mon.events.INSTRUCTION)


# ------------------------------------------------------------------------------------------ the run
class UserExc(Exception):
    pass


class UserBase(BaseException):
    pass


g = nx.MultiDiGraph()
for i in range(N):
    g.add_node(i)
for a, b in M["edges"]:
    g.add_edge(a, b)
RAISED = {}


def fn(node):
    ctl.gate("fnstart")
    ev("start", node, threading.current_thread().name)
    oc = M["outcomes"][node]
    try:
        if oc == 1:
            RAISED[node] = UserExc(node)
            raise RAISED[node]
        if oc == 2:
            RAISED[node] = UserBase(node)
            raise RAISED[node]
    finally:
        ctl.gate("fnend")
        ev("end", node, oc)


result = {"returned": None, "raised": None, "hang": False}


def watchdog():
    time.sleep(float(os.environ.get("REPLAY_HANG", "20")))
    result["hang"] = True
    finish()


def finish():
    bad = evaluate()
    if any(e[0] == "start_refused" for e in EVENTS):
        # an injected environment fault (a refused worker thread): run reports it instead of running the plan; only the
        # termination / clean-up bits are meaningful for such a run (as in the model instance, which checks only those)
        bad = [b for b in bad if b.startswith("c07_") or b in ("task_done_underflow",)]
    out = {"bad_observed": bad, "diverged": ctl.diverged[:3], "result": {k: (repr(v) if k != "hang" else v) for k, v in result.items()},
           "events": [list(map(str, e)) for e in EVENTS][:200], "expected_bad": spec.get("bad", [])}
    print(json.dumps(out, indent=1))
    hit = [b for b in bad if b in spec.get("bad", [])] or (bad if not spec.get("bad") else [])
    code = 10 if hit else (12 if ctl.diverged else 0)
    sys.stdout.flush()
    os._exit(code)


def evaluate():
    bad = []
    edges = {(a, b) for a, b in M["edges"]}
    reach = {(a, b) for a, b in edges}
    changed = True
    while changed:
        changed = False
        for (a, b) in list(reach):
            for (c, d) in list(reach):
                if b == c and (a, d) not in reach:
                    reach.add((a, d))
                    changed = True
    anc = lambda n: {a for (a, b) in reach if b == n}  # noqa: E731
    ok, failed, started, inflight, maxin = set(), set(), collections.Counter(), 0, 0
    interrupted = False
    shutdown = False  # the coordinator has put its first DONE sentinel after the interrupt
    returned = False
    first_fail = None
    for e in EVENTS:
        if e[0] == "start":
            n = e[1]
            if not anc(n) <= ok:
                bad.append("c01_start_before_dep")
            if anc(n) & failed:
                bad.append("c06_downstream_of_failure")
            if started[n]:
                bad.append("c04_twice")
            started[n] += 1
            inflight += 1
            maxin = max(maxin, inflight)
            if inflight > W:
                bad.append("c10_inflight_gt_w")
            if shutdown:
                bad.append("c17_start_after_interrupt")
            if returned:
                bad.append("c07_start_after_return")
        elif e[0] == "end":
            inflight -= 1
            if e[2] == 0:
                ok.add(e[1])
            else:
                failed.add(e[1])
                if first_fail is None:
                    first_fail = e[1]
            if returned:
                bad.append("c07_running_after_return")
        elif e[0] == "sanity":
            bad.append(e[1])
        elif e[0] == "interrupt":
            interrupted = True
        elif e[0] == "main_put_done":
            shutdown = shutdown or interrupted
        elif e[0] == "main_end":
            returned = True
            alive = [t for t in threading.enumerate() if t.name.startswith("W")]
            if e[1]:
                bad.append("c07_thread_alive_at_return")
            if inflight:
                bad.append("c07_inflight_at_return")
    if result["hang"]:
        bad.append("c07_deadlock")
        return sorted(set(bad))
    exc = result["raised"]
    anyfail = bool(failed)
    is_cyclic = any((a, a) in reach for a in range(N))
    if is_cyclic:
        # C07: a cycle is reported as an error before anything runs
        if sum(started.values()):
            bad.append("c07_cycle_ran_something")
        if exc is None:
            bad.append("c07_cycle_not_reported")
    if exc is None:
        if anyfail:
            bad.append("c06_failure_swallowed")
        if not interrupted and any(started[i] != 1 for i in range(N)):
            bad.append("c04_not_all_ran")  # run returned normally ("successful") although a needed call never ran exactly once
        if interrupted:
            bad.append("c17_interrupt_swallowed")
    else:
        kbi = isinstance(exc, KeyboardInterrupt)
        if interrupted and not kbi:
            bad.append("c17_interrupt_masked")
        if not kbi:
            cyclic_rejected = type(exc).__name__ == "HasACycle" and is_cyclic
            if cyclic_rejected:
                pass  # C07: a cyclic graph is reported up front, before anything ran
            elif any(e[0] == "start_refused" for e in EVENTS) and isinstance(exc, RuntimeError):
                pass  # the injected environment fault itself (a refused worker thread) is what run reports
            elif not anyfail:
                bad.append("c06_spurious_error")
            else:
                good = isinstance(exc, NodeError) and exc.node in failed and exc.__cause__ is RAISED.get(exc.node)
                if not good:
                    bad.append("c06_wrong_error")
                if W == 1 and isinstance(exc, NodeError) and exc.node != first_fail:
                    bad.append("c06_not_first_failure")
    me = M["max_errors"]
    fc = len(failed)
    if me is not None and fc > me + W:
        bad.append("c10_too_many_failures")
    if me is None and not interrupted:
        for j in range(N):
            if started[j] == 0 and not (anc(j) & failed):
                bad.append("c10_none_not_exhaustive")
    if W == 1 and me is not None and not interrupted:
        roots = [j for j in range(N) if M["outcomes"][j] != 0 and not any(M["outcomes"][i] != 0 for i in anc(j))]
        if fc != min(me + 1, len(roots)):
            bad.append("c10_w1_failure_count")
    return sorted(set(bad))


threading.Thread(target=watchdog, daemon=True).start()
install_instruction_hooks()
try:
    R.run_function_on_graph(g, fn, worker_count=W, max_errors=M["max_errors"], scheduler="default" if M.get("done_first") else "random")
    result["returned"] = True
except BaseException as e:  # noqa: B902
    result["raised"] = e
alive = [t.name for t in threading.enumerate() if t.name.startswith("W") and t.is_alive()]
ev("main_end", alive)
time.sleep(0.3)  # let stray threads (if any) show themselves
finish()
