"""BMC driver over conc/encode.py: typing pre-pass, unrolling with fresh constants per step, queries, trace extraction."""
import time

import z3

from .encode import AND, BAD_BITS, NOT, OR, BW, Encoder, NeedType, State, VEmptyList, VExc, VNone, Val, bv, default_like, mux_state
from .frontend import Unsupported


def _fresh_val(v, name):
    if not v.fields:
        return v, []
    terms, eqs = [], []
    for f, t in zip(v.fields, v.terms()):
        c = z3.Const(f"{name}.{f}", t.sort())
        terms.append(c)
        eqs.append(c == t)
    return v.rebuild(terms), eqs


def fresh_state(s, k):
    t = State()
    eqs = []
    for key, v in s.vars.items():
        nv, e = _fresh_val(v, f"{key}@{k}")
        t.vars[key] = nv
        eqs += e
    for key, v in s.sc.items():
        if isinstance(v, list):
            new = []
            for i, x in enumerate(v):
                c = z3.Const(f"{key}[{i}]@{k}", x.sort())
                eqs.append(c == x)
                new.append(c)
            t.sc[key] = new
        else:
            c = z3.Const(f"{key}@{k}", v.sort())
            eqs.append(c == v)
            t.sc[key] = c
    for key, v in s.bad.items():
        c = z3.Const(f"bad.{key}@{k}", z3.BoolSort())
        eqs.append(c == v)
        t.bad[key] = c
    return t, eqs


class BMC:
    def __init__(self, enc: Encoder):
        self.enc = enc
        self.W, self.N = enc.W, enc.N
        self._typing()

    # ------------------------------------------------------------------ typing: which variables live across steps, and their sorts
    def _typing(self):
        enc = self.enc
        enc.cur_choice = z3.BitVec("choice@typing", BW)
        base = enc.init_state()
        if enc.opts.process:
            enc.init_process_state(base)
        known = dict(base.vars)
        reads = set()
        enc.track_reads = reads
        enc.emptylist_final = False
        for _round in range(16):
            progress = False
            pending = 0
            for tid in ["main", 0]:
                pname = "main" if tid == "main" else "worker"
                for L, plist in enc.paths[pname].items():
                    for p in plist:
                        s = State()
                        s.vars = dict(known)
                        s.sc = {k: (list(v) if isinstance(v, list) else v) for k, v in base.sc.items()}
                        s.bad = dict(base.bad)
                        try:
                            _, s2 = enc.run_path(s, tid, p)
                        except (NeedType, AttributeError):
                            pending += 1
                            continue
                        for k, v in s2.vars.items():
                            if k not in known:
                                known[k] = default_like(v)
                                progress = True
                            elif isinstance(known[k], VNone) and not isinstance(v, VNone):
                                known[k] = default_like(v)
                                progress = True
                            elif isinstance(known[k], VEmptyList) and not isinstance(v, (VNone, VEmptyList)):
                                known[k] = default_like(v)  # `[]` whose element type is now known (thread list / node list)
                                progress = True
            enc.decl = known
            if not progress:
                if not enc.emptylist_final:
                    # second phase: what is still an untyped empty list never gets an element: iterating it yields nothing
                    enc.emptylist_final = True
                    continue
                break
        enc.track_reads = None
        enc.decl = known
        if pending:
            # variables read but never assigned on any typed path: treat as None
            for k in list(reads):
                known.setdefault(k, VNone())
        self.live = {k for k in reads}
        # replicate worker-0 variables to the other workers
        self.defaults = {}
        for k, v in known.items():
            if k not in self.live and k not in base.vars:
                continue
            if k.startswith("w0/"):
                for w in range(self.W):
                    self.defaults[f"w{w}/" + k[3:]] = v
            else:
                self.defaults[k] = v
        self.live |= {f"w{w}/" + k[3:] for k in list(self.live) if k.startswith("w0/") for w in range(self.W)}
        self.live |= set(base.vars)

    def initial(self):
        enc = self.enc
        s = enc.init_state()
        if enc.opts.process:
            enc.init_process_state(s)
        for k, v in self.defaults.items():
            s.vars.setdefault(k, v)
        return s

    def prune(self, s):
        s.vars = {k: v for k, v in s.vars.items() if k in self.live}
        for k, v in self.defaults.items():
            s.vars.setdefault(k, v)
        return s

    # ------------------------------------------------------------------ unrolling
    def unroll(self, K):
        enc, W = self.enc, self.W
        cons = list(enc.constraints)
        s, eqs = fresh_state(self.initial(), 0)
        cons += eqs
        self.steps = []
        threads = ["main"] + list(range(W))
        for k in range(K):
            sched = z3.BitVec(f"sched@{k}", BW)
            choice = z3.BitVec(f"choice@{k}", BW)
            enc.cur_choice = choice
            ens, nxt, rec = [], s, []
            for idx, tid in enumerate(threads):
                outs = enc.enabled_paths(s, tid)
                en = OR(*[AND(g, cg) for g, _, _, cg in outs])
                t = s
                for g, s2, _, _ in outs:
                    t = mux_state(g, self.prune(s2), t)
                ens.append(AND(sched == idx, en))
                nxt = mux_state(sched == idx, t, nxt)
                rec.append((tid, outs))
            any_en = OR(*[OR(*[g for g, _, _, _ in outs]) for _, outs in rec])
            extra = []
            if enc.opts.interrupt:
                ien, it = enc.interrupt_step(s)
                ens.append(AND(sched == W + 2, ien))
                nxt = mux_state(sched == W + 2, self.prune(it), nxt)
                # the interrupt is never *forced*: quiescence is judged on the ordinary threads
            # stutter: nobody can move
            st = s.copy()
            st.bad["c07_deadlock"] = OR(s.bad["c07_deadlock"], NOT(enc.main_ended(s)))
            ens.append(AND(sched == W + 1, NOT(any_en)))
            nxt = mux_state(sched == W + 1, st, nxt)
            cons.append(OR(*ens))
            self.steps.append({"sched": sched, "choice": choice, "rec": rec, "state": s, "any_en": any_en})
            s, eqs = fresh_state(nxt, k + 1)
            cons += eqs
        self.final = s
        self.final_any_en = OR(*[OR(*[g for g, _, _, _ in enc.enabled_paths(s, tid)]) for tid in threads])
        self.cons = cons
        return cons

    def solver(self):
        tac = z3.Then("simplify", "propagate-values", "solve-eqs", "bit-blast", "sat")
        sol = tac.solver()
        sol.add(*self.cons)
        return sol

    def query(self, extra, timeout_s=600):
        sol = self.solver()
        sol.set("timeout", int(timeout_s * 1000)) if False else None
        sol.add(extra)
        t0 = time.time()
        r = sol.check()
        dt = time.time() - t0
        return str(r), dt, (sol.model() if str(r) == "sat" else None)

    def bad_any(self, names=None):
        names = names or BAD_BITS
        return OR(*[self.final.bad[n] for n in names])

    def unfinished(self):
        """Some thread can still move at depth K, or the coordinator has not ended (and no bad flag explains it)."""
        return AND(OR(self.final_any_en, NOT(self.enc.main_ended(self.final))), NOT(self.bad_any()))

    # ------------------------------------------------------------------ trace extraction
    def trace(self, model):
        """Step list for replay: per step the thread, the queue choice, and its gate-able operations in order."""
        enc = self.enc
        out = []
        threads = ["main"] + list(range(self.W))
        for st in self.steps:
            sv = model.eval(st["sched"], model_completion=True).as_long()
            if sv == self.W + 1:
                continue  # stutter
            if sv == self.W + 2:
                pcv = model.eval(st["state"].sc["pc_main"], model_completion=True).as_long()
                lab = [l for l, i in enc.labels["main"].items() if i == pcv][0]
                ins = enc.progs["main"].instrs[lab]
                out.append({"thread": "interrupt", "at": lab, "line": ins.line, "at_gate": gate_of(enc, "main", ins)})
                continue
            if sv >= len(threads):
                out.append({"thread": f"?{sv}"})
                continue
            tid, outs = st["rec"][sv]
            hit = None
            for g, _, p, _ in outs:
                if z3.is_true(model.eval(g, model_completion=True)):
                    hit = p
                    break
            ch = model.eval(st["choice"], model_completion=True).as_long()
            if hit is None:
                out.append({"thread": tid, "gates": [], "note": "no enabled path under the model"})
                continue
            gates = []
            for i, d in hit.items:
                gk = gate_of(enc, "main" if tid == "main" else "worker", i)
                if gk:
                    gates.append({"g": gk, "line": i.line, "dir": d})
            out.append({"thread": tid, "start": hit.start, "next": hit.next, "choice": ch, "gates": gates,
                        "lines": sorted({i.line for i, _ in hit.items})})
        return out


def gate_of(enc, pname, i):
    """Name of the run-time hook at which the replay controller can observe this IR instruction (None: not observable)."""
    a = i.a
    if i.op == "iternext":
        loc = enc._location(i)
        if loc is not None and loc in enc.shared_mut and loc not in enc.protected:
            return f"iter:{loc[1]}"  # FOR_ITER over a shared list
        return None
    if i.op == "fnstart":
        return "fnstart"
    if i.op == "fnend":
        return "fnend"
    if i.op == "env":
        if a[0] == "acquire":
            return "lock.acquire:" + a[1][1]
        if a[0] == "release":
            return "lock.release:" + a[1][1]
        if a[0] == "method":
            loc = enc._location(i)
            if loc is not None and loc in enc.shared_mut and loc not in enc.protected:
                return f"var:{loc[1]}:load"  # list.append / extend / clear on a shared list: observable as the load of the variable
            if a[2] in ("acquire", "release") and a[1][0] == "objvar" and a[1][1] in getattr(enc, "lock_names", ()):
                return f"lock.{a[2]}:" + a[1][1]  # explicit lock.acquire() / lock.release()
            if a[2] == "get_nowait":
                return "q.get"
            if a[2] in ("get", "put", "task_done") or (a[2] == "join" and a[1] == ("objvar", "queue")):
                return "q." + a[2]
            if a[2] == "Thread":
                return "thread.new"
            if a[2] == "start":
                return "thread.start"
            if a[2] == "join":
                return "thread.join"
        return None
    if i.op in ("load", "store", "loadmap", "storemap"):
        loc = enc._location(i)
        if loc in enc.shared_mut and loc not in enc.protected:
            kind = "load" if i.op in ("load", "loadmap") else "store"
            return f"{loc[0]}:{loc[1]}:{kind}"
    return None
