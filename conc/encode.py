"""E2 encoder: thread programs (conc/frontend.py IR) -> step paths (Lipton reduction) -> functional bit-vector transition
relation -> BMC queries for z3.

Hand-written here (the *environment model*, listed in every evidence file):
  queue.Queue contract (get blocks on empty and returns ANY queued item [optionally: the DONE sentinel first, as the default
  scheduler's priority queue does]; put; task_done; join blocks until unfinished_tasks == 0; each atomic),
  threading.Lock / Thread (start, join), networkx read API (successors of a node: each distinct successor once, fixed order;
  predecessor_count = number of distinct predecessors), prepare_nodes closed form, fn(node) = start event ... end event with a
  symbolic outcome per node (ok / raises Exception / raises BaseException-only), progress-observer calls = ghost events.
Everything about WHAT the code does with these (order of statements, conditions, locks, handlers) comes from the IR.
"""
import itertools

import z3

from .frontend import LIST_MUTATORS, Unsupported

BW = 4  # bit width of small ints / node ids (N + W + 2 < 16)
LL = 6  # capacity of a modelled list of nodes (longer: bad bit nodelist_misuse = outside the model)


def bv(x):
    return z3.BitVecVal(x, BW)


def ite(c, a, b):
    if a is b:
        return a
    if z3.is_true(c):
        return a
    if z3.is_false(c):
        return b
    return z3.If(c, a, b)


def AND(*xs):
    xs = [x for x in xs if not z3.is_true(x)]
    if any(z3.is_false(x) for x in xs):
        return z3.BoolVal(False)
    return z3.And(*xs) if len(xs) > 1 else (xs[0] if xs else z3.BoolVal(True))


def OR(*xs):
    xs = [x for x in xs if not z3.is_false(x)]
    if any(z3.is_true(x) for x in xs):
        return z3.BoolVal(True)
    return z3.Or(*xs) if len(xs) > 1 else (xs[0] if xs else z3.BoolVal(False))


def NOT(x):
    if z3.is_true(x):
        return z3.BoolVal(False)
    if z3.is_false(x):
        return z3.BoolVal(True)
    return z3.Not(x)


def sel(vec, idx):
    e = vec[0]
    for i in range(1, len(vec)):
        e = ite(idx == i, vec[i], e)
    return e


def upd(vec, idx, val, guard=None):
    return [ite(idx == i if guard is None else AND(guard, idx == i), val, vec[i]) for i in range(len(vec))]


# ----------------------------------------------------------------------------------------------- values
class Val:
    fields = ()

    def terms(self):
        return [getattr(self, f) for f in self.fields]

    def rebuild(self, terms):
        o = object.__new__(type(self))
        o.__dict__.update(self.__dict__)
        for f, t in zip(self.fields, terms):
            setattr(o, f, t)
        return o

    def key(self):
        return type(self).__name__


class VBool(Val):
    fields = ("b",)

    def __init__(self, b):
        self.b = b if not isinstance(b, bool) else z3.BoolVal(b)


class VInt(Val):
    fields = ("v",)

    def __init__(self, v):
        self.v = v if not isinstance(v, int) else bv(v)


class VOptInt(Val):
    fields = ("none", "v")

    def __init__(self, none, v):
        self.none, self.v = none, v


class VNode(Val):
    fields = ("v",)

    def __init__(self, v):
        self.v = v if not isinstance(v, int) else bv(v)


class VNone(Val):
    pass


K_EXC, K_BASE, K_NODEERR, K_KBI = 0, 1, 2, 3
ORIGIN_THREAD_REFUSED = 14  # VExc.origin of the RuntimeError raised by a refused Thread.start()
ORIGIN_QUEUE_EMPTY = 15  # VExc.origin of the queue.Empty raised by a timed / non-blocking get (user exceptions: origin = a node, or N)
MAX_TIMEOUTS = 1  # how often a timed queue.get may time out in one run, all workers together (stated bound; keeps every schedule finite)


class VExc(Val):
    """Exception object (or None when present is False). kind: user Exception / BaseException-only / NodeError / KeyboardInterrupt.
    origin: node whose fn raised it (for user exceptions) ; node: NodeError.node ; ck/co: kind/origin of __cause__ ; hc: has cause."""

    fields = ("present", "kind", "origin", "node", "hc", "ck", "co")

    def __init__(self, present, kind, origin, node=None, hc=None, ck=None, co=None):
        self.present = present if not isinstance(present, bool) else z3.BoolVal(present)
        self.kind = kind if not isinstance(kind, int) else z3.BitVecVal(kind, 2)
        self.origin = origin if not isinstance(origin, int) else bv(origin)
        self.node = node if node is not None else bv(0)
        self.hc = hc if hc is not None else z3.BoolVal(False)
        self.ck = ck if ck is not None else z3.BitVecVal(0, 2)
        self.co = co if co is not None else bv(0)


NO_EXC = None


class VRef(Val):
    """Static reference to a singleton model object (queue, lock, graph, a set/map/list variable's object, module, function)."""

    def __init__(self, kind, name):
        self.kind, self.name = kind, name

    def key(self):
        return f"VRef:{self.kind}:{self.name}"


class VIter(Val):
    fields = ("node", "cursor")

    def __init__(self, kind, node, cursor, limit=None):
        self.kind, self.node, self.cursor, self.limit = kind, node, cursor, limit

    def key(self):
        return f"VIter:{self.kind}"


class VThread(Val):
    fields = ("id",)

    def __init__(self, id):
        self.id = id


class VTuple(Val):
    def __init__(self, items):
        self.items = items


class VOpaque(Val):
    """A value the model does not interpret (a float, a clock reading, the result of arithmetic on those): it can be stored and passed
    on; branching on it or comparing it is outside the model (Unsupported)."""


class VEmptyList(Val):
    """`[]` / `()` whose element type is not known yet: becomes the worker list (first append of a thread) or a node list."""


class VNodeList(Val):
    """A list / tuple of graph nodes, or None: a bounded sequence (length n <= LL, elements e0..e{LL-1}) with Python's semantics --
    duplicates allowed, iteration by position over the LIVE object (an iterator refers to the variable holding the list, so
    elements appended / cleared by another thread during the loop are seen, as in CPython)."""

    fields = ("none", "n") + tuple(f"e{i}" for i in range(LL))

    def __init__(self, none, n=0, elems=None):
        self.none = none if not isinstance(none, bool) else z3.BoolVal(none)
        self.n = n if not isinstance(n, int) else bv(n)
        elems = list(elems) if elems is not None else []
        for i in range(LL):
            setattr(self, f"e{i}", elems[i] if i < len(elems) else bv(0))

    def elems(self):
        return [getattr(self, f"e{i}") for i in range(LL)]

    def appended(self, node, cond=True):
        """-> (list with `node` appended if cond, overflow flag)"""
        cond = z3.BoolVal(cond) if isinstance(cond, bool) else cond
        es = [ite(AND(cond, self.n == i), node, e) for i, e in enumerate(self.elems())]
        return VNodeList(self.none, ite(cond, self.n + 1, self.n), es), AND(cond, self.n == LL)


class VSlot(Val):
    """bound_call_lookup[node] : reference to the Slot of `node` (C16)."""

    fields = ("node",)

    def __init__(self, node):
        self.node = node


class VBoundCall(Val):
    fields = ("node", "alive")

    def __init__(self, node, alive):
        self.node, self.alive = node, alive


def coerce(a, b):
    """Make two values mergeable (None vs optional types)."""
    if type(a) is type(b):
        return a, b
    if isinstance(a, VEmptyList) and isinstance(b, (VNodeList, VRef)):
        return (VNodeList(False, 0) if isinstance(b, VNodeList) else b), b
    if isinstance(b, VEmptyList) and isinstance(a, (VNodeList, VRef)):
        return a, (VNodeList(False, 0) if isinstance(a, VNodeList) else a)
    if isinstance(a, VOpaque) and isinstance(b, VNone):
        return a, a
    if isinstance(b, VOpaque) and isinstance(a, VNone):
        return b, b
    if isinstance(a, VNone):
        return default_like(b), b
    if isinstance(b, VNone):
        return a, default_like(a)
    raise Unsupported(f"cannot merge {type(a).__name__} with {type(b).__name__}")


def default_like(v):
    if isinstance(v, VExc):
        return VExc(False, 0, 0)
    if isinstance(v, VOptInt):
        return VOptInt(z3.BoolVal(True), bv(0))
    if isinstance(v, VBoundCall):
        return VBoundCall(v.node, z3.BoolVal(False))
    if isinstance(v, VNodeList):
        return VNodeList(True, 0)
    if isinstance(v, (VRef, VTuple, VNone, VEmptyList, VOpaque)):
        return v
    return v.rebuild([z3.BitVecVal(0, t.size()) if z3.is_bv(t) else z3.BoolVal(False) for t in v.terms()])


def mux(c, a, b):
    if a is b:
        return a
    a, b = coerce(a, b)
    if isinstance(a, VRef):
        if a.key() != b.key():
            raise Unsupported(f"merge of different objects {a.key()} / {b.key()}")
        return a
    if isinstance(a, (VNone, VTuple, VEmptyList, VOpaque)):
        return a
    return a.rebuild([ite(c, x, y) for x, y in zip(a.terms(), b.terms())])


# ----------------------------------------------------------------------------------------------- state
class State:
    """All z3 terms of one global state. vars: name -> Val (per thread instance names are 'w<i>/<var>'), plus model objects."""

    def __init__(self):
        self.vars = {}
        self.sc = {}  # scalar/vector model fields: name -> term or list of terms
        self.bad = {}  # name -> Bool (sticky)

    def copy(self):
        s = State()
        s.vars = dict(self.vars)
        s.sc = {k: (list(v) if isinstance(v, list) else v) for k, v in self.sc.items()}
        s.bad = dict(self.bad)
        return s


def mux_state(c, a, b):
    if a is b:
        return a
    s = State()
    for k in set(a.vars) | set(b.vars):
        x, y = a.vars.get(k), b.vars.get(k)
        if x is None:
            x = default_like(y)
        if y is None:
            y = default_like(x)
        s.vars[k] = mux(c, x, y)
    for k in a.sc:
        x, y = a.sc[k], b.sc[k]
        s.sc[k] = [ite(c, p, q) for p, q in zip(x, y)] if isinstance(x, list) else ite(c, x, y)
    for k in set(a.bad) | set(b.bad):
        s.bad[k] = ite(c, a.bad.get(k, z3.BoolVal(False)), b.bad.get(k, z3.BoolVal(False)))
    return s


# ----------------------------------------------------------------------------------------------- paths
class Path:
    def __init__(self, start):
        self.start, self.items, self.next = start, [], None  # items: (instr, direction|None)


class Options:
    def __init__(self, **kw):
        self.done_first = False  # default scheduler: the DONE sentinel has the highest priority
        self.cyclic = False  # allow cyclic graphs (assert_acyclic must reject them)
        self.interrupt = False  # one asynchronous KeyboardInterrupt in the coordinating thread
        self.process = False  # run_physical.process inlined as fn (C15/C16)
        self.base_kinds = True  # fn may raise BaseException-only
        self.fuse = True  # lock-set based atomic fusing (False: every shared access is its own step)
        self.all_ok = False  # restrict the instance to runs in which no call fails
        self.start_may_fail = False  # Thread.start() may raise RuntimeError ("can't start new thread"), at most once per run
        self.int_where = "all"  # interrupt positions: all | not_startup | only_startup (startup = a thread is started but not yet recorded)
        self.__dict__.update(kw)


class Encoder:
    def __init__(self, fe, N, W, graph=None, opts=None):
        self.fe, self.N, self.W = fe, N, W
        self.opts = opts or Options()
        self.DONE = N
        assert N + W + 2 < 2 ** BW
        self.progs = {"main": fe.main, "worker": fe.worker}
        self.constraints = []
        self._mk_constants(graph)
        self._prep_programs()
        self._analyse_sharing()
        self._compile_paths()

    # ------------------------------------------------------------------ symbolic constants
    def _mk_constants(self, graph):
        N = self.N
        self.adjv = {(i, j): z3.Bool(f"adj_{i}_{j}") for i in range(N) for j in range(N) if i != j}
        if graph is not None:
            for (i, j), v in self.adjv.items():
                self.constraints.append(v == ((i, j) in graph))
        self.rank = [z3.BitVec(f"rank_{i}", BW) for i in range(N)]
        # reachability (transitive closure), for ancestors and for cyclicity
        r = [[self.adj(i, j) for j in range(N)] for i in range(N)]
        for k in range(N):
            r = [[OR(r[i][j], AND(r[i][k], r[k][j])) for j in range(N)] for i in range(N)]
        self.reach = r
        self.cyclic = OR(*[r[i][i] for i in range(N)])
        if not self.opts.cyclic:
            for (i, j), v in self.adjv.items():
                self.constraints.append(z3.Implies(v, z3.ULT(self.rank[i], self.rank[j])))
        # outcome per node: 0 ok, 1 raises Exception, 2 raises BaseException-only
        if self.opts.all_ok:
            # stated restriction of an instance: no call fails (used for the 5-node ordering instance of C01, whose property
            # does not involve failures); as literal constants so that the failure paths fold away
            self.outcome = [z3.BitVecVal(0, 2) for i in range(N)]
        else:
            self.outcome = [z3.BitVec(f"outcome_{i}", 2) for i in range(N)]
        for o in self.outcome:
            self.constraints.append(z3.ULE(o, 2 if self.opts.base_kinds else 1))
        self.maxerr_none = z3.Bool("maxerr_none")
        self.maxerr = z3.BitVec("maxerr", BW)
        self.constraints.append(z3.ULE(self.maxerr, bv(N)))
        self.PC = []
        for j in range(N):
            e = bv(0)
            for i in range(N):
                if i != j:
                    e = e + ite(self.adj(i, j), bv(1), bv(0))
            self.PC.append(e)

    def adj(self, i, j):
        return self.adjv[(i, j)] if i != j else z3.BoolVal(False)

    # ------------------------------------------------------------------ program preparation
    def _prep_programs(self):
        """Split user-function calls into start/end events; index labels."""
        for pname, prog in self.progs.items():
            if prog is None:
                continue
            for lab, ins in list(prog.instrs.items()):
                if ins.op == "env" and self._is_user_call(ins):
                    end = prog.new("fnend", ins.a, ins.dst, ins.line)
                    end.nxt, end.exc, end.held, end.fn = ins.nxt, ins.exc, ins.held, ins.fn
                    ins.op, ins.dst, ins.nxt = "fnstart", None, end.label

    def _is_user_call(self, ins):
        a = ins.a
        if a[0] == "callvar" and a[1] == "fn":
            return True
        if self.opts.process and a[0] == "method" and a[2] == "run":
            return True
        return False

    # ------------------------------------------------------------------ sharing / movers
    def _analyse_sharing(self):
        fe = self.fe
        self.shared_mut = set()
        for q in fe.closure_vars:
            if fe.assign_sites.get(q, 0) >= 2:
                self.shared_mut.add(("var", q))
            if q in fe.map_stores:
                self.shared_mut.add(("map", q))
            if q in fe.list_mut_vars:
                self.shared_mut.add(("var", q))  # a list object shared by the threads and mutated through append / extend / clear
        # lock sets over worker code
        acc = {}
        for pname in ("worker", "main"):
            prog = self.progs[pname]
            if prog is None:
                continue
            for ins in prog.instrs.values():
                loc = self._location(ins)
                if loc in self.shared_mut:
                    acc.setdefault(loc, []).append((pname, ins))
        self.protected = {}
        for loc, lst in acc.items():
            wl = [set(i.held) for p, i in lst if p == "worker"]
            if wl and self.opts.fuse:
                common = set.intersection(*wl)
                if common:
                    self.protected[loc] = sorted(common)[0]
        # main instructions that can execute while a thread may be alive: reachable from a Thread.start
        main = self.progs["main"]
        starts = [l for l, i in main.instrs.items() if i.op == "env" and i.a[0] == "method" and i.a[2] == "start"]
        # ... or while the coordinator itself executes a call of the plan (code that runs fn on the calling thread)
        starts += [l for l, i in main.instrs.items() if i.op == "fnstart"]
        seen, todo = set(), list(starts)
        while todo:
            l = todo.pop()
            if l in seen or l is None:
                continue
            seen.add(l)
            i = main.instrs[l]
            todo += [i.nxt, i.alt, i.exc]
        self.main_concurrent = seen
        self.fuse_report = {f"{k[0]}:{k[1]}": v for k, v in self.protected.items()}

    def _location(self, ins):
        if ins.op == "load":
            return ("var", ins.a)
        if ins.op == "store":
            return ("var", ins.dst)
        if ins.op in ("loadmap", "storemap"):
            return ("map", ins.a[0])
        if ins.op == "env" and ins.a[0] == "method" and ins.a[1][0] == "objvar" and ins.a[2] in LIST_MUTATORS:
            return ("var", ins.a[1][1])
        if ins.op == "iternext" and ins.label in self.fe.iter_src:
            return ("var", self.fe.iter_src[ins.label])  # one step of a loop over a (possibly shared) list: reads the list
        return None

    def mover(self, pname, ins):
        """-> (class in B/R/L/N, blocking?)"""
        op = ins.op
        if pname == "main" and ins.label not in self.main_concurrent and not (op == "env" and ins.a[0] == "method" and ins.a[2] == "start"):
            return "B", False
        if op in ("load", "store", "loadmap", "storemap", "iternext"):
            loc = self._location(ins)
            if loc not in self.shared_mut:
                return "B", False
            lk = self.protected.get(loc)
            if lk is not None and lk in ins.held:
                return "B", False
            return "N", False
        if op == "fnstart":
            # ghost start event: left-mover (fusing it with the preceding racy read of `stop` only makes the start-time checks
            # stricter; every fused trace is a real interleaving)
            return "L", False
        if op == "fnend":
            # ghost end event: right-mover (the call's effects become visible with the first following visible operation)
            return "R", False
        if op == "env":
            a = ins.a
            if a[0] == "acquire":
                return "R", True
            if a[0] == "release":
                return "L", False
            if a[0] == "method":
                obj, meth = a[1], a[2]
                loc = self._location(ins)
                if loc is not None and loc in self.shared_mut:
                    lk = self.protected.get(loc)
                    return ("B", False) if (lk is not None and lk in ins.held) else ("N", False)
                if meth == "acquire":
                    return "R", True
                if meth == "release":
                    return "L", False
                if meth in ("get", "join", "get_nowait"):
                    return "N", True
                if meth == "is_alive":
                    return "N", False
                if meth in ("put", "task_done", "start"):
                    return "N", False
                if meth.startswith("increment_"):
                    return "N", False
                return "B", False
            return "B", False
        if op == "storeattr" and ins.a[1] == "value":
            return "N", False  # bound_call slot release (C16 ghost)
        return "B", False

    # ------------------------------------------------------------------ path compilation
    def _compile_paths(self):
        self.paths = {}
        for pname, prog in self.progs.items():
            if prog is None:
                continue
            entry = prog.entry
            while prog.instrs[entry].op == "jump":
                entry = prog.instrs[entry].nxt
            self.entries = getattr(self, "entries", {})
            self.entries[pname] = entry
            table, todo = {}, [entry]
            while todo:
                L = todo.pop()
                if L in table:
                    continue
                if prog.instrs[L].op == "end":
                    table[L] = []
                    continue
                table[L] = self._paths_from(pname, prog, L)
                for p in table[L]:
                    if p.next not in table:
                        todo.append(p.next)
                if self.opts.interrupt and pname == "main" and L in self.main_concurrent and prog.instrs[L].exc is not None:
                    # an asynchronous exception delivered at L continues at L's handler: that label must be a step start
                    if prog.instrs[L].exc not in table:
                        todo.append(prog.instrs[L].exc)
            self.paths[pname] = table
        # program counters range over step-start labels only
        self.labels = {}
        for pname, table in self.paths.items():
            prog = self.progs[pname]
            labs = list(table) + [l for l, i in prog.instrs.items() if i.op == "end" and l not in table]
            self.labels[pname] = {lab: idx for idx, lab in enumerate(labs)}
        self.PCW = max(len(v) for v in self.labels.values()).bit_length()

    def _paths_from(self, pname, prog, L):
        out = []

        def go(lab, items, phase, depth):
            if depth > 400:
                raise Unsupported(f"step path too long from {L} (a loop without a visible operation?)")
            ins = prog.instrs[lab]
            if ins.op == "end":
                p = Path(L)
                p.items, p.next = items, lab
                out.append(p)
                return
            cls, blocking = self.mover(pname, ins)
            first = not items
            if not first:
                stop = blocking or (phase == 1 and cls in ("R", "N")) or (phase == 0 and cls == "R")
                seen_at = [k for k, (i, _) in enumerate(items) if i.label == lab]
                if seen_at and all(self.mover(pname, i)[0] == "B" for i, _ in items[seen_at[-1]:]):
                    # a loop iteration without any visible operation (e.g. collecting successors into a local list) would unroll
                    # for ever: cut the step at the loop head.  More, shorter steps only add interleavings -- sound, it needs a larger K
                    stop = True
                if self.opts.interrupt and pname == "main" and lab in self.main_concurrent and (cls != "B" or ins.op == "env"):
                    # an asynchronous exception can land between any two instructions of the coordinator: besides every shared-state
                    # operation, every call-like operation on its own bookkeeping (e.g. workers.append) starts a step, so that the
                    # position "resource acquired, not yet recorded" is an interrupt position of the model
                    stop = True
                if stop:
                    p = Path(L)
                    p.items, p.next = items, lab
                    out.append(p)
                    return
            nphase = 1 if cls in ("N", "L") else phase
            if ins.op in ("branch", "iternext"):
                go(ins.nxt, items + [(ins, True)], nphase, depth + 1)
                go(ins.alt, items + [(ins, False)], nphase, depth + 1)
            elif ins.op == "fnstart":
                p = Path(L)
                p.items, p.next = items + [(ins, None)], ins.nxt
                out.append(p)
            elif ins.op == "fnend":
                go(ins.nxt, items + [(ins, True)], nphase, depth + 1)
                go(ins.exc, items + [(ins, False)], nphase, depth + 1)
            elif ins.op in ("raise", "reraise"):
                go(ins.exc, items + [(ins, None)], nphase, depth + 1)
            elif ins.op == "env" and self._may_raise(ins):
                go(ins.nxt, items + [(ins, True)], nphase, depth + 1)
                go(ins.exc, items + [(ins, False)], nphase, depth + 1)
            else:
                go(ins.nxt, items + [(ins, None)], nphase, depth + 1)

        go(L, [], 0, 0)
        return out

    def _may_raise(self, ins):
        a = ins.a
        if a[0] == "method" and self._timed_get(a):
            return True
        if a[0] == "method" and a[2] == "start" and self.opts.start_may_fail:
            return True
        return a[0] == "call" and a[1] == "assert_acyclic" and self.opts.cyclic

    @staticmethod
    def _timed_get(a):
        """queue.get(timeout=...) / get(block=False) / get(False) / get_nowait(): may raise queue.Empty instead of blocking."""
        if a[0] != "method":
            return False
        if a[2] == "get_nowait":
            return True
        return a[2] == "get" and ("timeout" in a[4] or "block" in a[4] or len(a[3]) >= 1)

    # ------------------------------------------------------------------ initial state
    def init_state(self):
        N, W = self.N, self.W
        s = State()
        sc = s.sc
        sc["q"] = [bv(0)] * N
        sc["qdone"] = bv(0)
        sc["timeouts"] = bv(0)
        sc["start_failed"] = z3.BoolVal(False)
        sc["unf"] = bv(0)
        sc["queue_made"] = z3.BoolVal(False)
        sc["lock"] = {}
        sc["started_thr"] = [z3.BoolVal(False)] * W
        sc["nthreads"] = bv(0)
        sc["wlist"] = [bv(0)] * W
        sc["wcount"] = bv(0)
        sc["mapv"] = list(self.PC)
        sc["pc_main"] = z3.BitVecVal(self.labels["main"][self.entries["main"]], self.PCW)
        sc["pc_w"] = [z3.BitVecVal(self.labels["worker"][self.entries["worker"]], self.PCW) for _ in range(W)]
        # ghost
        sc["g_started"] = [z3.BitVecVal(0, 2)] * N
        sc["g_ok"] = [z3.BoolVal(False)] * N
        sc["g_failed"] = [z3.BoolVal(False)] * N
        sc["g_inflight"] = bv(0)
        sc["g_infn"] = [z3.BoolVal(False)] * W
        sc["g_failcount"] = bv(0)
        sc["g_firstfail"] = bv(0)
        sc["g_anyfail"] = z3.BoolVal(False)
        sc["g_maxinflight"] = bv(0)
        sc["interrupted"] = z3.BoolVal(False)
        sc["g_shutdown"] = z3.BoolVal(False)
        sc["g_start_after_int"] = z3.BoolVal(False)
        del sc["lock"]
        self.lock_names = sorted({i.a[1][1] for p in self.progs.values() if p for i in p.instrs.values() if i.op == "env" and i.a[0] in ("acquire", "release")}
                                 | {i.a[1][1] for p in self.progs.values() if p for i in p.instrs.values()
                                    if i.op == "env" and i.a[0] == "method" and i.a[2] in ("acquire", "release") and i.a[1][0] == "objvar"})
        for ln in self.lock_names:
            sc["lock:" + ln] = bv(0)
        s.vars["main/$exc"] = VExc(False, 0, 0)
        for w in range(W):
            s.vars[f"w{w}/$exc"] = VExc(False, 0, 0)
        # parameters of run_function_on_graph
        s.vars["main/graph"] = VRef("graph", "graph")
        s.vars["main/fn"] = VRef("func", "fn")
        s.vars["main/worker_count"] = VInt(W)
        s.vars["main/max_errors"] = VOptInt(self.maxerr_none, self.maxerr)
        s.vars["main/scheduler"] = VNone()
        for b in BAD_BITS:
            s.bad[b] = z3.BoolVal(False)
        return s

    # ------------------------------------------------------------------ variable naming
    def vname(self, tid, q):
        """State key of program variable q as seen by thread tid ('main' or worker index)."""
        if tid == "main":
            return "main/" + q
        if self.fe.var_frames.get(q) == "main" or q in self.fe.main_env.map:
            return "main/" + q
        return f"w{tid}/{q}"

    # ------------------------------------------------------------------ executing a path
    def run_path(self, s0, tid, path):
        """-> (guard, new_state).  tid: 'main' or worker index."""
        s = s0.copy()
        g = []
        self.choice_guard = []
        self.written = set()
        loc = {}
        pname = "main" if tid == "main" else "worker"

        def rd(name):
            return loc[name] if name in loc else self._read(s, tid, name)

        def ev(t):
            return self.eval(t, s, tid, rd)

        for ins, d in path.items:
            op = ins.op
            if op in ("assign",):
                if ins.a == ("curexc",):
                    v = s.vars[self._excreg(tid)]
                else:
                    v = ev(ins.a)
                if ins.dst is not None:
                    v = self._coerce_decl(self._tmpkey(tid, ins.dst), v)
                    loc[ins.dst] = v
                    self._set(s, self._tmpkey(tid, ins.dst), v)
            elif op == "load":
                v = self._read(s, tid, ins.a)
                self._race(s, tid, ins, g)
                loc[ins.dst] = v
                self._set(s, self._tmpkey(tid, ins.dst), v)
            elif op == "store":
                self._race(s, tid, ins, g)
                self._set(s, self.vname(tid, ins.dst), self._coerce_decl(self.vname(tid, ins.dst), ev(ins.a)))
            elif op == "loadmap":
                m, k = ins.a
                v = self.map_load(s, tid, m, ev(k))
                self._race(s, tid, ins, g)
                loc[ins.dst] = v
                self._set(s, self._tmpkey(tid, ins.dst), v)
            elif op == "storemap":
                m, k, val = ins.a
                self._race(s, tid, ins, g)
                self.map_store(s, tid, m, ev(k), ev(val))
            elif op == "loadattr":
                o, attr = ins.a
                v = self.load_attr(s, tid, ev(o), attr)
                loc[ins.dst] = v
                self._set(s, self._tmpkey(tid, ins.dst), v)
            elif op == "storeattr":
                o, attr, val = ins.a
                self.store_attr(s, tid, o, attr, ev(val), rd)
            elif op == "setcause":
                e, c = ev(ins.a[0]), ev(ins.a[1])
                v = VExc(e.present, e.kind, e.origin, e.node, z3.BoolVal(True), c.kind, c.origin)
                loc[ins.dst] = v
                self._set(s, self._tmpkey(tid, ins.dst), v)
            elif op == "branch":
                if ins.a[0] == "excmatch":
                    c = self.exc_match(s.vars[self._excreg(tid)], ins.a[1])
                else:
                    c = self.truth(ev(ins.a[1]))
                g.append(c if d else NOT(c))
            elif op == "jump":
                pass
            elif op == "iter":
                v = self.make_iter(s, tid, ev(ins.a), ref=(ins.a[2] if len(ins.a) > 2 else ins.a[1]))
                loc[ins.dst] = v
                self._set(s, self._tmpkey(tid, ins.dst), v)
            elif op == "iternext":
                it = ev(ins.a)
                has, val, it2 = self.iter_next(s, tid, it)
                g.append(has if d else NOT(has))
                if d:
                    loc[ins.dst] = val
                    self._set(s, self._tmpkey(tid, ins.dst), val)
                    # write the advanced iterator back to its tmp
                    loc[ins.a[1]] = it2
                    self._set(s, self._tmpkey(tid, ins.a[1]), it2)
            elif op == "raise":
                self._set(s, self._excreg(tid), self._coerce_decl(self._excreg(tid), ev(ins.a)))
            elif op == "reraise":
                pass
            elif op == "fnstart":
                self.fn_start(s, tid, ins, rd, g)
            elif op == "fnend":
                self.fn_end(s, tid, ins, rd, g, d, loc)
            elif op == "env":
                r = self.env(s, tid, ins, rd, g, d)
                if ins.dst is not None:
                    r = r if r is not None else VNone()
                    loc[ins.dst] = r
                    self._set(s, self._tmpkey(tid, ins.dst), r)
            else:
                raise Unsupported(f"IR op {op}")
        # next pc
        nxt = path.next
        prog = self.progs[pname]
        if prog.instrs[nxt].op == "end":
            self.on_thread_end(s, tid, prog.instrs[nxt].a)
        pcv = z3.BitVecVal(self.labels[pname][nxt], self.PCW)
        if tid == "main":
            s.sc["pc_main"] = pcv
        else:
            s.sc["pc_w"] = list(s.sc["pc_w"])
            s.sc["pc_w"][tid] = pcv
        self.last_choice_guard = AND(*self.choice_guard)
        return AND(*g), s

    def _excreg(self, tid):
        return "main/$exc" if tid == "main" else f"w{tid}/$exc"

    decl = {}

    def _coerce_decl(self, key, v):
        d = self.decl.get(key)
        if d is None and key.startswith("w"):
            d = self.decl.get("w0/" + key.split("/", 1)[1])
        if d is not None and isinstance(v, VNone) and not isinstance(d, VNone):
            return default_like(d)
        if isinstance(v, VEmptyList) and isinstance(d, VNodeList):
            return VNodeList(False, 0)
        if isinstance(v, VEmptyList) and isinstance(d, VRef) and d.kind == "threadlist":
            return d
        return v

    def _tmpkey(self, tid, t):
        return ("main/" if tid == "main" else f"w{tid}/") + t

    def _read(self, s, tid, q):
        if q.startswith("$"):
            k = self._tmpkey(tid, q)
        else:
            k = self.vname(tid, q)
        if self.track_reads is not None and k not in self.written:
            self.track_reads.add(k)
        if k not in s.vars:
            raise NeedType(k)
        return s.vars[k]

    track_reads = None
    written = frozenset()
    saw_nodelist = False
    emptylist_final = True  # False during the first typing phase: operations that need the element type of a VEmptyList wait

    def _set(self, s, key, v):
        if self.track_reads is not None:
            self.written.add(key)
        s.vars[key] = v

    def _race(self, s, tid, ins, g):
        """main touches a worker-lock-protected location without the lock while a thread is alive: reduction assumption broken."""
        if tid != "main":
            return
        loc = self._location(ins)
        lk = self.protected.get(loc)
        if lk is None or lk in ins.held or ins.label not in self.main_concurrent:
            return
        alive = OR(*[AND(s.sc["started_thr"][w], s.sc["pc_w"][w] != self._endpcs("worker")[0], s.sc["pc_w"][w] != self._endpcs("worker")[1]) for w in range(self.W)])
        s.bad["reduction_assumption"] = OR(s.bad["reduction_assumption"], alive)

    def _endpcs(self, pname):
        prog = self.progs[pname]
        ends = [l for l, i in prog.instrs.items() if i.op == "end"]
        return [z3.BitVecVal(self.labels[pname][l], self.PCW) for l in ends]

    # ------------------------------------------------------------------ expression evaluation
    def eval(self, t, s, tid, rd):
        k = t[0]
        if k == "const":
            v = t[1]
            if v is None:
                return VNone()
            if isinstance(v, bool):
                return VBool(v)
            if isinstance(v, int):
                return VInt(v)
            if isinstance(v, str):
                return VRef("str", v)
            if isinstance(v, float):
                return VOpaque()
            raise Unsupported(f"constant {v!r}")
        if k == "tmp":
            return rd(t[1])
        if k == "glob":
            if t[1] == "DONE":
                return VNode(self.DONE)
            return VRef("glob", t[1])
        if k == "func":
            return VRef("func", t[1])
        if k == "not":
            return VBool(NOT(self.truth(self.eval(t[1], s, tid, rd))))
        if k == "truth":
            return VBool(self.truth(self.eval(t[1], s, tid, rd)))
        if k == "cmp":
            a, b = self.eval(t[2], s, tid, rd), self.eval(t[3], s, tid, rd)
            return VBool(self.compare(t[1], a, b))
        if k == "is":
            a, b = self.eval(t[1], s, tid, rd), self.eval(t[2], s, tid, rd)
            r = self.identical(a, b)
            return VBool(NOT(r) if t[3] else r)
        if k == "in":
            item = self.eval(t[1], s, tid, rd)
            r = self.member(s, tid, item, t[2])
            return VBool(NOT(r) if t[3] else r)
        if k == "bin":
            a, b = self.eval(t[2], s, tid, rd), self.eval(t[3], s, tid, rd)
            if isinstance(a, (VOpaque, VNone)) or isinstance(b, (VOpaque, VNone)) or (isinstance(a, VRef) and a.kind == "glob") or (isinstance(b, VRef) and b.kind == "glob"):
                # arithmetic on clock readings / floats / module constants (time.monotonic() + GRACE_SECONDS): uninterpreted
                # (an unknown module-level call evaluates to None in the model, hence VNone here)
                return VOpaque()
            if not (isinstance(a, VInt) and isinstance(b, VInt)):
                raise Unsupported("arithmetic on non-ints")
            return VInt(a.v + b.v if t[1] == "+" else a.v - b.v)
        if k == "proj":
            tup = self.eval(t[1], s, tid, rd)
            return tup.items[t[2]]
        if k == "tuple":
            return VTuple([self.eval(x, s, tid, rd) for x in t[1:]])
        if k == "emptylist":
            return VEmptyList()
        raise Unsupported(f"expression form {k}")

    def truth(self, v):
        if isinstance(v, VBool):
            return v.b
        if isinstance(v, VExc):
            return v.present
        if isinstance(v, VNone):
            return z3.BoolVal(False)
        if isinstance(v, VInt):
            return v.v != 0
        if isinstance(v, VOptInt):
            return AND(NOT(v.none), v.v != 0)
        if isinstance(v, VRef):
            return z3.BoolVal(True)
        if isinstance(v, VEmptyList):
            return z3.BoolVal(False)
        if isinstance(v, VNodeList):
            return AND(NOT(v.none), v.n != 0)
        raise Unsupported(f"truth value of {type(v).__name__}")

    def compare(self, op, a, b):
        if isinstance(a, VOptInt):
            a = VInt(a.v)
        if isinstance(b, VOptInt):
            b = VInt(b.v)
        if isinstance(a, VInt) and isinstance(b, VInt):
            x, y = a.v, b.v
            return {"==": x == y, "!=": x != y, "<": z3.ULT(x, y), "<=": z3.ULE(x, y), ">": z3.UGT(x, y), ">=": z3.UGE(x, y)}[op]
        if isinstance(a, VNode) and isinstance(b, VNode) and op in ("==", "!="):
            return a.v == b.v if op == "==" else a.v != b.v
        raise Unsupported(f"comparison {op} of {type(a).__name__}/{type(b).__name__}")

    def identical(self, a, b):
        if isinstance(b, VNone):
            if isinstance(a, VNone):
                return z3.BoolVal(True)
            if isinstance(a, VExc):
                return NOT(a.present)
            if isinstance(a, VOptInt):
                return a.none
            if isinstance(a, VBoundCall):
                return NOT(a.alive)
            if isinstance(a, VNodeList):
                return a.none
            return z3.BoolVal(False)
        if isinstance(a, VNone):
            return self.identical(b, a)
        if isinstance(a, VNode) and isinstance(b, VNode):
            return a.v == b.v
        if isinstance(a, VRef) and isinstance(b, VRef):
            return z3.BoolVal(a.key() == b.key())
        if isinstance(a, VBool) and isinstance(b, VBool):
            return a.b == b.b
        raise Unsupported(f"`is` on {type(a).__name__}/{type(b).__name__}")

    def member(self, s, tid, item, cname):
        c = self._read(s, tid, cname)
        if isinstance(c, VRef) and c.kind == "nodeset" and isinstance(item, VNode):
            bits = self.nodeset(c.name)
            return sel(bits + [z3.BoolVal(False)] * (2 ** BW - len(bits)), item.v) if False else OR(*[AND(item.v == i, bits[i]) for i in range(self.N)])
        raise Unsupported(f"membership test in {cname}")

    def nodeset(self, name):
        if name == "single_parent_nodes":
            return [self.PC[i] == 1 for i in range(self.N)]
        if name == "source_nodes":
            return [self.PC[i] == 0 for i in range(self.N)]
        raise Unsupported(f"node set {name}")

    def exc_match(self, e, cls):
        if isinstance(cls, (tuple, list)):
            return OR(*[self.exc_match(e, c) for c in cls])
        if cls == "BaseException":
            return z3.BoolVal(True)
        if cls == "Exception":
            return OR(e.kind == K_EXC, e.kind == K_NODEERR)
        if cls == "NodeError":
            return e.kind == K_NODEERR
        if cls == "KeyboardInterrupt":
            return e.kind == K_KBI
        if cls == "Empty":
            return AND(e.kind == K_EXC, e.origin == ORIGIN_QUEUE_EMPTY)
        if cls == "RuntimeError":
            return AND(e.kind == K_EXC, e.origin == ORIGIN_THREAD_REFUSED)
        # any other class name: the exception kinds of the model are "some Exception" / "some BaseException that is not an
        # Exception" raised by arbitrary user code -- it need not be an instance of a specific named subclass
        return z3.BoolVal(False)

    # ------------------------------------------------------------------ maps / attrs / iterators
    def map_load(self, s, tid, m, k):
        mv = self._read(s, tid, m)
        if isinstance(mv, VRef) and mv.kind == "predmap" and isinstance(k, VNode):
            return VInt(sel(s.sc["mapv"], k.v))
        if isinstance(mv, VRef) and mv.kind == "slotmap" and isinstance(k, VNode):
            return VSlot(k.v)
        raise Unsupported(f"subscript load on {m}")

    def map_store(self, s, tid, m, k, val):
        mv = self._read(s, tid, m)
        if isinstance(mv, VRef) and mv.kind == "predmap" and isinstance(k, VNode) and isinstance(val, VInt):
            s.sc["mapv"] = upd(s.sc["mapv"], k.v, val.v)
            return
        raise Unsupported(f"subscript store on {m}")

    def load_attr(self, s, tid, o, attr):
        if isinstance(o, VSlot) and attr == "value":
            return VBoundCall(o.node, sel(s.sc["g_alive"], o.node))
        if isinstance(o, VNode) and attr == "fn":
            return VRef("func", "nodefn")
        if isinstance(o, VExc) and attr in ("__traceback__", "tb_next"):
            return VRef("tb", "tb")
        if isinstance(o, VRef) and o.kind == "tb":
            return o
        if isinstance(o, VRef) and o.kind == "queue" and attr == "unfinished_tasks":
            return VInt(s.sc["unf"])
        raise Unsupported(f"attribute .{attr} of {type(o).__name__}")

    def store_attr(self, s, tid, o, attr, val, rd):
        if o[0] == "var":
            key = self.vname(tid, o[1])
            cur = s.vars.get(key)
            if isinstance(cur, VExc) and attr == "__cause__":
                s.vars[key] = VExc(cur.present, cur.kind, cur.origin, cur.node, z3.BoolVal(True), val.kind, val.origin)
                return
            if isinstance(cur, VSlot) and attr == "value":
                return self._slot_set(s, cur, val)
            if isinstance(cur, VExc) and attr == "__traceback__":
                return
        else:
            cur = rd(o[1])
            if isinstance(cur, VSlot) and attr == "value":
                return self._slot_set(s, cur, val)
            if isinstance(cur, VExc) and attr == "__traceback__":
                return
        raise Unsupported(f"attribute store .{attr}")

    def _slot_set(self, s, slot, val):
        alive = z3.BoolVal(False) if isinstance(val, VNone) else (val.alive if isinstance(val, VBoundCall) else z3.BoolVal(True))
        s.sc["g_alive"] = upd(s.sc["g_alive"], slot.node, alive)

    def make_iter(self, s, tid, src, ref=None):
        """ref: name of the variable / tmp the iterated object was taken from (list iterators stay attached to it)"""
        if isinstance(src, VIter):
            return src
        if isinstance(src, VRef) and src.kind == "threadlist":
            return VIter("threads", bv(0), bv(0))
        if isinstance(src, (VNodeList, VEmptyList)):
            if isinstance(src, VEmptyList) and not self.emptylist_final:
                raise NeedType("element type of an empty list")
            if isinstance(src, VNodeList):
                s.bad["nodelist_misuse"] = OR(s.bad["nodelist_misuse"], src.none)  # iterating None raises TypeError: outside the model
            return VIter("list", bv(0), bv(0), limit=ref)
        raise Unsupported(f"iteration over {type(src).__name__}")

    def iter_next(self, s, tid, it):
        N = self.N
        if it.kind == "range":
            has = z3.ULT(it.cursor, it.node)  # node field holds the limit
            return has, VInt(it.cursor), VIter("range", it.node, it.cursor + 1)
        if it.kind == "threads":
            has = z3.ULT(it.cursor, s.sc["wcount"])
            return has, VThread(sel(s.sc["wlist"], it.cursor)), VIter("threads", it.node, it.cursor + 1)
        if it.kind == "succ":
            cand = [AND(z3.ULE(it.cursor, bv(j)), OR(*[AND(it.node == i, self.adj(i, j)) for i in range(N)])) for j in range(N)]
            has = OR(*cand)
            nxt = bv(0)
            for j in reversed(range(N)):
                nxt = ite(cand[j], bv(j), nxt)
            return has, VNode(nxt), VIter("succ", it.node, nxt + 1)
        if it.kind == "list":
            cur = self._read(s, tid, it.limit)
            if isinstance(cur, VEmptyList) or isinstance(cur, VNone):
                return z3.BoolVal(False), VNode(bv(0)), it
            if not isinstance(cur, VNodeList):
                raise Unsupported(f"list iterator over {type(cur).__name__}")
            has = AND(NOT(cur.none), z3.ULT(it.cursor, cur.n))
            return has, VNode(sel(cur.elems(), it.cursor)), VIter("list", it.node, it.cursor + 1, limit=it.limit)
        raise Unsupported(f"iterator {it.kind}")

    # ------------------------------------------------------------------ environment operations
    def env(self, s, tid, ins, rd, g, d):
        a = ins.a
        sc = s.sc
        ev = lambda t: self.eval(t, s, tid, rd)  # noqa: E731
        if a[0] == "acquire":
            key = "lock:" + a[1][1]
            g.append(sc[key] == 0)
            sc[key] = bv(self._tidnum(tid))
            return None
        if a[0] == "release":
            key = "lock:" + a[1][1]
            s.bad["lock_misuse"] = OR(s.bad["lock_misuse"], sc[key] != self._tidnum(tid))
            sc[key] = bv(0)
            return None
        if a[0] == "call":
            name, args = a[1], [ev(x) for x in a[2]]
            if name == "assert_acyclic":
                if self.opts.cyclic:
                    g.append(NOT(self.cyclic) if d else self.cyclic)
                    if not d:
                        s.vars[self._excreg(tid)] = VExc(True, K_EXC, bv(self.N))
                return VNone()
            if name == "coerce_worker_count":
                return VInt(self.W)
            if name == "coerce_max_errors":
                return args[0]
            if name == "prepare_nodes":
                return VTuple([VRef("nodeset", "source_nodes"), VRef("nodeset", "single_parent_nodes"), VRef("predmap", "remaining")])
            if name == "create_queue":
                src = args[1]
                if not (isinstance(src, VRef) and src.kind == "nodeset"):
                    raise Unsupported("create_queue initial items")
                bits = self.nodeset(src.name)
                sc["q"] = [ite(b, bv(1), bv(0)) for b in bits]
                u = bv(0)
                for x in sc["q"]:
                    u = u + x
                sc["unf"] = u
                return VRef("queue", "queue")
            if name == "range":
                x = args[0]
                if isinstance(x, VInt):
                    return VIter("range", x.v, bv(0))
                raise Unsupported("range argument")
            if name == "NodeError":
                n = args[0]
                return VExc(True, K_NODEERR, bv(0), n.v)
            if name == "isinstance":
                cls = args[1]
                if isinstance(args[0], VExc) and isinstance(cls, VRef):
                    return VBool(self.exc_match(args[0], cls.name))
                raise Unsupported("isinstance")
            if name == "len":
                x = args[0]
                if isinstance(x, VRef) and x.kind == "nodeset":
                    e = bv(0)
                    for b in self.nodeset(x.name):
                        e = e + ite(b, bv(1), bv(0))
                    return VInt(e)
                if isinstance(x, VRef) and x.kind == "threadlist":
                    return VInt(sc["wcount"])
                if isinstance(x, VRef) and x.kind == "graph":
                    return VInt(self.N)
                if isinstance(x, VEmptyList):
                    return VInt(0)
                if isinstance(x, VNodeList):
                    s.bad["nodelist_misuse"] = OR(s.bad["nodelist_misuse"], x.none)
                    return VInt(x.n)
                raise Unsupported("len argument")
            if name in ("min", "max"):
                if all(isinstance(x, VInt) for x in args) and len(args) == 2:
                    x, y = args[0].v, args[1].v
                    lt = z3.ULT(x, y)
                    return VInt(ite(lt, x, y) if name == "min" else ite(lt, y, x))
                if any(isinstance(x, (VOpaque, VNone)) for x in args):
                    return VOpaque()
                raise Unsupported(name)
            if name in ("get_full_call_scope",):
                return VRef("scope", "scope")
            if name in ("create_chained_call_error",):
                return VRef("callerror", "callerror")
            if name == "type":
                return VRef("typeof", "node") if isinstance(args[0], VNode) else VRef("typeof", "other")
            raise Unsupported(f"call to {name}() (line {ins.line})")
        if a[0] == "method" and a[2] in ("acquire", "release") and a[1][0] == "objvar" and ("lock:" + a[1][1]) in sc:
            # explicit lock.acquire() / lock.release() (no `with`): same environment operations; the lock-set pass does not see a
            # protected region here, so the accesses in between stay separate steps (sound, only slower)
            key = "lock:" + a[1][1]
            if a[2] == "acquire":
                g.append(sc[key] == 0)
                sc[key] = bv(self._tidnum(tid))
            else:
                s.bad["lock_misuse"] = OR(s.bad["lock_misuse"], sc[key] != self._tidnum(tid))
                sc[key] = bv(0)
            return VNone()
        if a[0] == "method":
            obj, meth = a[1], a[2]
            args = [ev(x) for x in a[3]]
            kws = {k: ev(v) for k, v in a[4].items()}
            o = self._read(s, tid, obj[1]) if obj[0] == "objvar" else ev(obj)
            if isinstance(o, (VEmptyList, VNodeList)) and meth in ("extend", "clear", "append") and obj[0] == "objvar":
                it = args[0] if args else None
                if meth == "append" and isinstance(it, VThread) and isinstance(o, VEmptyList):
                    o = VRef("threadlist", "workers")
                    self._set(s, self.vname(tid, obj[1]), o)
                    return self.method(s, tid, ins, o, meth, args, kws, g, d)
                self._race(s, tid, ins, g)
                cur = o if isinstance(o, VNodeList) else VNodeList(False, 0)
                misuse = cur.none  # a method call on None raises AttributeError: outside the model
                if meth == "clear":
                    cur = VNodeList(False, 0)
                elif meth == "append":
                    if not isinstance(it, VNode):
                        raise Unsupported(f"append of a {type(it).__name__} to a node list")
                    cur, ovf = cur.appended(it.v)
                    misuse = OR(misuse, ovf, it.v == self.DONE)
                else:
                    if isinstance(it, VIter) and it.kind == "succ":
                        for j in range(self.N):
                            cur, ovf = cur.appended(bv(j), OR(*[AND(it.node == i, self.adj(i, j)) for i in range(self.N)]))
                            misuse = OR(misuse, ovf)
                    elif isinstance(it, VNodeList):
                        misuse = OR(misuse, it.none)
                        for k, e in enumerate(it.elems()):
                            cur, ovf = cur.appended(e, z3.ULT(bv(k), it.n))
                            misuse = OR(misuse, ovf)
                    elif not isinstance(it, VEmptyList):
                        raise Unsupported(f"extend with a {type(it).__name__}")
                s.bad["nodelist_misuse"] = OR(s.bad["nodelist_misuse"], misuse)
                self.saw_nodelist = True
                self._set(s, self.vname(tid, obj[1]), VNodeList(False, cur.n, cur.elems()))
                return VNone()
            return self.method(s, tid, ins, o, meth, args, kws, g, d)
        if a[0] == "callvar":
            raise Unsupported(f"call of variable {a[1]} (line {ins.line})")
        raise Unsupported(f"env op {a[0]}")

    def _tidnum(self, tid):
        return 1 if tid == "main" else tid + 2

    def method(self, s, tid, ins, o, meth, args, kws, g, d):
        sc = s.sc
        N, W = self.N, self.W
        if isinstance(o, VRef) and o.kind == "queue":
            if meth == "put":
                it = args[0]
                if not isinstance(it, VNode):
                    raise Unsupported("queue.put of a non-node")
                isdone = it.v == self.DONE
                sc["q"] = [ite(AND(NOT(isdone), it.v == i), sc["q"][i] + 1, sc["q"][i]) for i in range(N)]
                sc["qdone"] = ite(isdone, sc["qdone"] + 1, sc["qdone"])
                if tid == "main":
                    # ghost: the coordinator has started to release the workers (first DONE sentinel) after an interrupt
                    sc["g_shutdown"] = OR(sc["g_shutdown"], AND(isdone, sc["interrupted"]))
                sc["unf"] = sc["unf"] + 1
                s.bad["overflow"] = OR(s.bad["overflow"], sc["unf"] == 0)
                return VNone()
            if meth in ("get", "get_nowait"):
                ch = self.cur_choice
                anyq = OR(sc["qdone"] != 0, *[sc["q"][i] != 0 for i in range(N)])
                if self._timed_get(ins.a) and not d:
                    # the wait timed out: only while the queue is empty (time itself is not modelled: "empty right now" is enough for
                    # a timeout to be possible), at most MAX_TIMEOUTS times per run
                    if tid == "main":
                        raise Unsupported("timed queue.get on the coordinator")
                    g.append(NOT(anyq))
                    g.append(z3.ULT(sc["timeouts"], bv(MAX_TIMEOUTS)))
                    sc["timeouts"] = sc["timeouts"] + 1
                    s.vars[self._excreg(tid)] = VExc(True, K_EXC, bv(ORIGIN_QUEUE_EMPTY))
                    return VNone()
                g.append(anyq)
                ok_node = OR(*[AND(ch == i, sc["q"][i] != 0) for i in range(N)])
                ok_done = AND(ch == self.DONE, sc["qdone"] != 0)
                # which queued item is returned is a constraint on the step's `choice`, not part of enabledness
                if self.opts.done_first:
                    self.choice_guard.append(OR(ok_done, AND(sc["qdone"] == 0, ok_node)))
                else:
                    self.choice_guard.append(OR(ok_done, ok_node))
                sc["q"] = [ite(ch == i, sc["q"][i] - 1, sc["q"][i]) for i in range(N)]
                sc["qdone"] = ite(ch == self.DONE, sc["qdone"] - 1, sc["qdone"])
                return VNode(ch)
            if meth == "task_done":
                s.bad["task_done_underflow"] = OR(s.bad["task_done_underflow"], sc["unf"] == 0)
                sc["unf"] = sc["unf"] - 1
                return VNone()
            if meth == "join":
                g.append(sc["unf"] == 0)
                return VNone()
        if isinstance(o, VRef) and o.kind == "glob" and o.name == "threading":
            if meth == "Lock":
                return VRef("lock", f"lock@{ins.label}")
            if meth in ("current_thread", "main_thread"):
                return VRef("threadobj", "main" if (tid == "main" or meth == "main_thread") else "worker")
            if meth == "Thread":
                tgt = kws.get("target")
                if not (isinstance(tgt, VRef) and tgt.kind == "func"):
                    raise Unsupported("Thread target")
                tidv = sc["nthreads"]
                s.bad["too_many_threads"] = OR(s.bad["too_many_threads"], z3.UGE(tidv, bv(W)))
                sc["nthreads"] = tidv + 1
                return VThread(tidv)
        if isinstance(o, VThread):
            if meth == "start":
                if self.opts.start_may_fail and d:
                    g.append(self.cur_choice != 1)
                if self.opts.start_may_fail and not d:
                    # the operating system refuses the thread: RuntimeError in the coordinator, the thread never runs.  Whether it does
                    # is the step's free `choice` (a coordinator step takes nothing from the queue), so both continuations exist
                    g.append(self.cur_choice == 1)
                    g.append(NOT(sc["start_failed"]))
                    sc["start_failed"] = z3.BoolVal(True)
                    s.vars[self._excreg(tid)] = VExc(True, K_EXC, bv(ORIGIN_THREAD_REFUSED))
                    return VNone()
                sc["started_thr"] = [OR(sc["started_thr"][w], o.id == w) for w in range(W)]
                return VNone()
            if meth == "join":
                timed = [x for x in list(args) + list(kws.values()) if not isinstance(x, VNone)]
                if timed:
                    # join(timeout): returns when the thread has ended OR the time is up -- time is not modelled, so: at any moment
                    note = f"line {ins.line}: Thread.join with a timeout may return while the thread is still running"
                    if note not in self.fe.notes:
                        self.fe.notes.append(note)
                    return VNone()
                e0, e1 = self._endpcs("worker")
                done = OR(*[AND(o.id == w, OR(sc["pc_w"][w] == e0, sc["pc_w"][w] == e1)) for w in range(W)])
                g.append(done)
                return VNone()
        if isinstance(o, VRef) and o.kind == "threadobj" and meth == "is_alive":
            return VBool(NOT(self.main_ended(s))) if o.name == "main" else VBool(True)
        if isinstance(o, VRef) and o.kind == "threadlist" and meth == "append":
            t = args[0]
            if not isinstance(t, VThread):
                raise Unsupported("append of a non-thread")
            sc["wlist"] = upd(sc["wlist"], sc["wcount"], t.id)
            sc["wcount"] = sc["wcount"] + 1
            return VNone()
        if isinstance(o, VRef) and o.kind == "graph" and meth == "successors":
            n = args[0]
            if not isinstance(n, VNode):
                raise Unsupported("graph.successors of a non-node")
            return VIter("succ", n.v, bv(0))
        if isinstance(o, VRef) and o.kind == "observer" and meth.startswith("increment_"):
            self.notify(s, tid, meth, rd_scope=None)
            return VNone()
        if isinstance(o, VRef) and o.kind == "glob" and (meth.endswith("Error") or meth.endswith("Exception") or meth in ("HasACycle", "NetworkXUnfeasible")):
            # construction of an exception object from a module attribute (e.g. nx.HasACycle(...)): some Exception, no origin node
            return VExc(True, K_EXC, bv(self.N))
        if isinstance(o, VRef) and o.kind == "glob" and o.name not in ("threading", "queue", "graph", "nx"):
            # a call on a module-level object the model knows nothing about (logger.debug, warnings.warn, time.monotonic ...):
            # environment assumption -- it neither touches the engine's state nor raises; recorded in the instance notes
            note = f"line {ins.line}: {o.name}.{meth}(...) treated as having no effect on the engine state"
            if note not in self.fe.notes:
                self.fe.notes.append(note)
            return VNone()
        raise Unsupported(f"method {meth} on {o.key()} (line {ins.line})")

    # ------------------------------------------------------------------ user function events + monitors
    def fn_node(self, s, tid, ins, rd):
        a = ins.a
        if a[0] == "callvar":
            n = self.eval(a[2][0], s, tid, rd)
        else:
            raise Unsupported("user call form")
        if not isinstance(n, VNode):
            raise Unsupported("fn argument is not a node")
        return n.v

    def fn_start(self, s, tid, ins, rd, g):
        sc, N = s.sc, self.N
        n = self.fn_node(s, tid, ins, rd)
        B = s.bad
        B["fn_on_sentinel"] = OR(B["fn_on_sentinel"], z3.UGE(n, bv(N)))
        # C01: every ancestor finished successfully
        viol = OR(*[AND(n == j, self.reach[i][j], NOT(sc["g_ok"][i])) for i in range(N) for j in range(N) if i != j])
        B["c01_start_before_dep"] = OR(B["c01_start_before_dep"], viol)
        # C06: nothing downstream of a failed call starts
        viol6 = OR(*[AND(n == j, self.reach[i][j], sc["g_failed"][i]) for i in range(N) for j in range(N) if i != j])
        B["c06_downstream_of_failure"] = OR(B["c06_downstream_of_failure"], viol6)
        # C04: at most once
        B["c04_twice"] = OR(B["c04_twice"], sel(sc["g_started"], n) != 0)
        sc["g_started"] = [ite(n == i, ite(sc["g_started"][i] == 3, sc["g_started"][i], sc["g_started"][i] + 1), sc["g_started"][i]) for i in range(N)]
        sc["g_inflight"] = sc["g_inflight"] + 1
        B["c10_inflight_gt_w"] = OR(B["c10_inflight_gt_w"], z3.UGT(sc["g_inflight"], bv(self.W)))
        sc["g_maxinflight"] = ite(z3.UGT(sc["g_inflight"], sc["g_maxinflight"]), sc["g_inflight"], sc["g_maxinflight"])
        if tid != "main":
            sc["g_infn"] = list(sc["g_infn"])
            sc["g_infn"][tid] = z3.BoolVal(True)
            # C10: no lock held while the user function runs
            held = OR(*[sc["lock:" + ln] == self._tidnum(tid) for ln in self.lock_names])
            B["c10_fn_under_lock"] = OR(B["c10_fn_under_lock"], held)
        # C17: "no further call is started" cannot be instantaneous -- the coordinator needs a few instructions to react.  The
        # decision point that counts is the worker's `stop` test (fused with this start event): no worker may pass it once the
        # coordinator has begun to release the workers (put its first DONE sentinel) after the interrupt.
        B["c17_start_after_interrupt"] = OR(B["c17_start_after_interrupt"], sc["g_shutdown"])
        B["c07_start_after_return"] = OR(B["c07_start_after_return"], self.main_ended(s))

    def fn_end(self, s, tid, ins, rd, g, d, loc):
        sc, N = s.sc, self.N
        n = self.fn_node(s, tid, ins, rd)
        oc = sel(self.outcome + [z3.BitVecVal(0, 2)] * (2 ** BW - N), n) if False else self._sel_outcome(n)
        okc = oc == 0
        g.append(okc if d else NOT(okc))
        sc["g_inflight"] = sc["g_inflight"] - 1
        if tid != "main":
            sc["g_infn"] = list(sc["g_infn"])
            sc["g_infn"][tid] = z3.BoolVal(False)
        if d:
            sc["g_ok"] = [OR(sc["g_ok"][i], n == i) for i in range(N)]
            if ins.dst is not None:
                loc[ins.dst] = VNone()
                s.vars[self._tmpkey(tid, ins.dst)] = VNone()
        else:
            sc["g_failed"] = [OR(sc["g_failed"][i], n == i) for i in range(N)]
            sc["g_firstfail"] = ite(sc["g_anyfail"], sc["g_firstfail"], n)
            sc["g_anyfail"] = z3.BoolVal(True)
            sc["g_failcount"] = sc["g_failcount"] + 1
            s.vars[self._excreg(tid)] = VExc(True, ite(oc == 1, z3.BitVecVal(K_EXC, 2), z3.BitVecVal(K_BASE, 2)), n)
        s.bad["c07_running_after_return"] = OR(s.bad["c07_running_after_return"], self.main_ended(s))

    def _sel_outcome(self, n):
        e = z3.BitVecVal(0, 2)
        for i in range(self.N):
            e = ite(n == i, self.outcome[i], e)
        return e

    def main_ended(self, s):
        e0, e1 = self._endpcs("main")
        return OR(s.sc["pc_main"] == e0, s.sc["pc_main"] == e1)

    def notify(self, s, tid, meth, rd_scope):
        pass

    def on_thread_end(self, s, tid, how):
        sc, N, W = s.sc, self.N, self.W
        B = s.bad
        if tid != "main":
            return
        raised = how == "raise"
        exc = s.vars["main/$exc"]
        e0, e1 = self._endpcs("worker")
        # C07: every started thread has exited, nothing in flight
        alive = OR(*[AND(sc["started_thr"][w], sc["pc_w"][w] != e0, sc["pc_w"][w] != e1) for w in range(W)])
        B["c07_thread_alive_at_return"] = OR(B["c07_thread_alive_at_return"], alive)
        B["c07_inflight_at_return"] = OR(B["c07_inflight_at_return"], sc["g_inflight"] != 0)
        anyfail = sc["g_anyfail"]
        interrupted = sc["interrupted"]
        cyc = self.cyclic if self.opts.cyclic else z3.BoolVal(False)
        if not raised:
            # returned normally: no failure may have happened (C06), every node ran exactly once (C04) -- unless interrupted/cyclic
            B["c06_failure_swallowed"] = OR(B["c06_failure_swallowed"], anyfail)
            B["c04_not_all_ran"] = OR(B["c04_not_all_ran"], AND(NOT(interrupted), OR(*[sc["g_started"][i] != 1 for i in range(N)])))
            B["c07_cycle_not_reported"] = OR(B["c07_cycle_not_reported"], cyc)
            B["c17_interrupt_swallowed"] = OR(B["c17_interrupt_swallowed"], interrupted)
        else:
            is_kbi = exc.kind == K_KBI
            B["c17_interrupt_masked"] = OR(B["c17_interrupt_masked"], AND(interrupted, NOT(is_kbi)))
            nokbi = NOT(is_kbi)
            # raised although nothing failed
            B["c06_spurious_error"] = OR(B["c06_spurious_error"], AND(nokbi, NOT(anyfail), NOT(cyc)))
            # the raised error names a real failure: NodeError(node) with node failed, cause = that node's exception
            isne = exc.kind == K_NODEERR
            node_failed = OR(*[AND(exc.node == i, sc["g_failed"][i]) for i in range(N)])
            cause_ok = AND(exc.hc, exc.co == exc.node, OR(exc.ck == K_EXC, exc.ck == K_BASE))
            B["c06_wrong_error"] = OR(B["c06_wrong_error"], AND(nokbi, anyfail, NOT(cyc), NOT(AND(isne, node_failed, cause_ok))))
            if W == 1:
                B["c06_not_first_failure"] = OR(B["c06_not_first_failure"], AND(nokbi, anyfail, NOT(cyc), exc.node != sc["g_firstfail"]))
            B["c07_cycle_ran_something"] = OR(B["c07_cycle_ran_something"], AND(cyc, OR(*[sc["g_started"][i] != 0 for i in range(N)])))
        # C10 counts
        fc = sc["g_failcount"]
        has_max = NOT(self.maxerr_none)
        B["c10_too_many_failures"] = OR(B["c10_too_many_failures"], AND(has_max, z3.UGT(fc, self.maxerr + bv(W))))
        # with max_errors None every node none of whose ancestors failed has run
        notrun = OR(*[AND(sc["g_started"][j] == 0, NOT(OR(*[AND(self.reach[i][j], sc["g_failed"][i]) for i in range(N) if i != j]))) for j in range(N)])
        B["c10_none_not_exhaustive"] = OR(B["c10_none_not_exhaustive"], AND(self.maxerr_none, NOT(interrupted), NOT(cyc), notrun))
        if W == 1:
            # exactly min(k+1, number of failing calls none of whose dependencies failed)
            roots = bv(0)
            for j in range(N):
                isroot = AND(self.outcome[j] != 0, NOT(OR(*[AND(self.reach[i][j], self.outcome[i] != 0) for i in range(N) if i != j])))
                roots = roots + ite(isroot, bv(1), bv(0))
            want = ite(z3.ULT(self.maxerr + 1, roots), self.maxerr + 1, roots)
            B["c10_w1_failure_count"] = OR(B["c10_w1_failure_count"], AND(has_max, NOT(interrupted), NOT(cyc), fc != want))

    # ------------------------------------------------------------------ one global step
    def enabled_paths(self, s, tid):
        pname = "main" if tid == "main" else "worker"
        pc = s.sc["pc_main"] if tid == "main" else s.sc["pc_w"][tid]
        outs = []
        for L, plist in self.paths[pname].items():
            at = pc == z3.BitVecVal(self.labels[pname][L], self.PCW)
            for p in plist:
                g, s2 = self.run_path(s, tid, p)
                gg = AND(at, g)
                if tid != "main":
                    gg = AND(gg, s.sc["started_thr"][tid])
                outs.append((gg, s2, p, self.last_choice_guard))
        return outs

    def step_thread(self, s, tid):
        outs = self.enabled_paths(s, tid)
        en = OR(*[g for g, _, _, _ in outs])
        nxt = s
        for g, s2, _, _ in outs:
            nxt = mux_state(g, s2, nxt)
        return en, nxt

    def interrupt_step(self, s):
        """Asynchronous KeyboardInterrupt in the coordinating thread: at its current pc, control goes to that instruction's handler."""
        main = self.progs["main"]
        sc = s.sc
        outs = []
        for L in self.paths["main"]:
            ins = main.instrs[L]
            if ins.op == "end" or L not in self.main_concurrent:
                continue
            startup = ins.op == "env" and ins.a[0] == "method" and ins.a[2] == "append"  # about to record a resource it has just acquired
            if (self.opts.int_where == "not_startup" and startup) or (self.opts.int_where == "only_startup" and not startup):
                continue
            at = sc["pc_main"] == z3.BitVecVal(self.labels["main"][L], self.PCW)
            s2 = s.copy()
            s2.vars["main/$exc"] = VExc(True, K_KBI, bv(self.N))
            s2.sc["interrupted"] = z3.BoolVal(True)
            tgt = ins.exc
            # run the handler's leading part as its own step start: just move the pc
            if tgt not in self.paths["main"]:
                raise Unsupported(f"handler label {tgt} is not a step start")
            s2.sc["pc_main"] = z3.BitVecVal(self.labels["main"][tgt], self.PCW)
            outs.append((AND(at, NOT(sc["interrupted"]), sc["g_inflight"] != 0), s2))
        en = OR(*[g for g, _ in outs])
        nxt = s
        for g, s2 in outs:
            nxt = mux_state(g, s2, nxt)
        return en, nxt


class NeedType(Exception):
    pass


BAD_BITS = [
    "c01_start_before_dep", "c04_twice", "c04_not_all_ran", "c06_downstream_of_failure", "c06_failure_swallowed", "c06_spurious_error",
    "c06_wrong_error", "c06_not_first_failure", "c07_thread_alive_at_return", "c07_inflight_at_return", "c07_start_after_return",
    "c07_running_after_return", "c07_cycle_not_reported", "c07_cycle_ran_something", "c07_deadlock", "c10_inflight_gt_w", "c10_fn_under_lock",
    "c10_too_many_failures", "c10_none_not_exhaustive", "c10_w1_failure_count", "c17_start_after_interrupt", "c17_interrupt_swallowed",
    "c17_interrupt_masked", "fn_on_sentinel", "lock_misuse", "overflow", "task_done_underflow", "too_many_threads", "reduction_assumption",
    "c15_bad", "c16_bad", "nodelist_misuse",
]
