"""E2 front end: the real source of run_function_on_graph.py (and optionally run_physical.process) -> thread programs in a small
jump IR.  Re-run on every check: nothing here is cached and nothing is hand-written about what the code does; the only
hand-written knowledge is the *vocabulary* (what queue.get, Lock, Thread, graph.successors ... mean: conc/encode.py).

Supported Python subset: Assign / AugAssign / Expr / If / For / While True / Try(except, else, finally) / With / Return / Raise /
Nonlocal / Pass / nested FunctionDef; expressions Name, Constant, Attribute-calls on known objects, Compare, BoolOp, UnaryOp not,
BinOp + -, Subscript, Tuple unpack of a call result, IfExp.  Anything else raises Unsupported (the check then exits 3: it says
nothing rather than pass).
"""
import ast
import itertools


LIST_MUTATORS = ("append", "extend", "clear")


class Unsupported(Exception):
    pass


class Instr:
    __slots__ = ("op", "a", "dst", "nxt", "alt", "exc", "line", "held", "fn", "label")

    def __init__(self, op, a=None, dst=None, line=0):
        self.op, self.a, self.dst, self.line = op, a, dst, line
        self.nxt = self.alt = self.exc = None
        self.held = ()
        self.fn = ""
        self.label = None

    def __repr__(self):
        return f"{self.label}:{self.op} {self.dst or ''} {self.a!r} ->{self.nxt}/{self.alt} exc={self.exc} held={list(self.held)} L{self.line}"


# expression trees (after hoisting): tuples
#   ('const', v) ('local', name) ('tmp', name) ('glob', name)  ('not', e) ('cmp', op, l, r) ('bin', op, l, r) ('is', l, r, negate)
#   ('in', item, container_name, negate) ('truth', e)


class Program:
    def __init__(self, name):
        self.name = name
        self.instrs = {}
        self.entry = None
        self.locals = set()
        self._n = itertools.count()

    def new(self, op, a=None, dst=None, line=0):
        i = Instr(op, a, dst, line)
        i.label = f"{self.name[0]}{next(self._n)}"
        self.instrs[i.label] = i
        return i


class Env:
    """Compile-time name resolution: name -> ('var', qualified) | ('func', FunctionDef, Env) | ('glob', name)."""

    def __init__(self, parent=None, prefix="", frame=None):
        self.parent, self.prefix, self.map = parent, prefix, {}
        self.frame = frame  # name of the frame these variables live in ('main' or 'thread')

    def lookup(self, name):
        e = self
        while e is not None:
            if name in e.map:
                return e.map[name]
            e = e.parent
        return ("glob", name)


def _assigned_names(fn):
    """Names bound in the function body itself (not nested defs), minus nonlocal/global declarations."""
    out, non = set(), set()

    def tgt(t):
        if isinstance(t, ast.Name):
            out.add(t.id)
        elif isinstance(t, (ast.Tuple, ast.List)):
            for x in t.elts:
                tgt(x)

    class V(ast.NodeVisitor):
        def visit_FunctionDef(self, n):
            if n is fn:
                self.generic_visit(n)

        def visit_Lambda(self, n):
            pass

        def visit_Nonlocal(self, n):
            non.update(n.names)

        def visit_Global(self, n):
            non.update(n.names)

        def visit_Assign(self, n):
            for t in n.targets:
                tgt(t)
            self.generic_visit(n)

        def visit_AugAssign(self, n):
            tgt(n.target)
            self.generic_visit(n)

        def visit_For(self, n):
            tgt(n.target)
            self.generic_visit(n)

        def visit_With(self, n):
            for it in n.items:
                if it.optional_vars is not None:
                    tgt(it.optional_vars)
            self.generic_visit(n)

        def visit_ExceptHandler(self, n):
            if n.name:
                out.add(n.name)
            self.generic_visit(n)

    V().visit(fn)
    for a in fn.args.args + fn.args.kwonlyargs + fn.args.posonlyargs:
        out.add(a.arg)
    return out - non, non


def _predeclare(fdef, env):
    """Nested function definitions are visible in the whole body (the compiler walks statements backwards)."""
    for n in fdef.body:
        if isinstance(n, ast.FunctionDef):
            env.map[n.name] = ("func", n, env)


class Ctx:
    def __init__(self, prog, env, exc, ret, held=(), fnname="", cur_exc=None, loop=None, yhook=None):
        self.prog, self.env, self.exc, self.ret, self.held, self.fnname, self.cur_exc, self.loop = prog, env, exc, ret, held, fnname, cur_exc, loop
        self.yhook = yhook

    def but(self, **kw):
        c = Ctx(self.prog, self.env, self.exc, self.ret, self.held, self.fnname, self.cur_exc, self.loop, self.yhook)
        for k, v in kw.items():
            setattr(c, k, v)
        return c


class Frontend:
    """Builds: self.main (coordinator Program), self.worker (Program or None), variable tables."""

    ENTRY = "run_function_on_graph"

    def __init__(self, sources, inline_process=None):
        """sources: dict module_key -> source text. 'rfg' is required. inline_process: optional (source, funcname) of
        run_physical.prep_run_physical to inline `process` as fn."""
        self.mods = {k: ast.parse(v) for k, v in sources.items()}
        self.funcs = {}
        for k, m in self.mods.items():
            for n in m.body:
                if isinstance(n, ast.FunctionDef):
                    self.funcs.setdefault(n.name, n)
        self.inline_process = inline_process
        self.iter_src = {}  # label of an iternext instruction -> variable whose (list) value it iterates
        self.list_mut_vars = set()  # variables on which a list-mutating method is called (shared ones are racy locations)
        self.tmpc = itertools.count()
        self.main = Program("main")
        self.worker = None
        self.worker_def = None
        self.shared_reads = {}  # qualified var -> info
        self.var_frames = {}  # qualified name -> 'main' | 'thread'
        self.assign_sites = {}  # qualified name -> count
        self.map_stores = set()
        self.closure_vars = set()  # main-frame variables referenced from thread code
        self.lock_sites = {}
        self.notes = []
        self._compile_main()
        self._finalize()

    # ------------------------------------------------------------------ helpers
    def tmp(self, ctx):
        n = f"${next(self.tmpc)}"
        return n

    def emit(self, ctx, op, a=None, dst=None, line=0):
        i = ctx.prog.new(op, a, dst, line)
        i.exc, i.held, i.fn = ctx.exc, ctx.held, ctx.fnname
        return i

    def qual(self, ctx, name):
        r = ctx.env.lookup(name)
        return r

    # ------------------------------------------------------------------ main
    def _compile_main(self):
        fn = self.funcs[self.ENTRY]
        env = Env(None, "", "main")
        assigned, _ = _assigned_names(fn)
        for n in assigned:
            env.map[n] = ("var", n)
            self.var_frames[n] = "main"
        _predeclare(fn, env)
        self.main_env = env
        end = self.main.new("end", "return")
        endx = self.main.new("end", "raise")
        self.main_end, self.main_endx = end.label, endx.label
        ctx = Ctx(self.main, env, endx.label, lambda v: end.label, (), self.ENTRY)
        first = self.block(fn.body, ctx, end.label)
        self.main.entry = first

    # ------------------------------------------------------------------ statements: each returns entry label; continues to `k`
    @staticmethod
    def _acq_rel(call_stmt, meth):
        """`X.acquire()` / `X.release()` as an expression statement -> the name X, else None."""
        if (isinstance(call_stmt, ast.Expr) and isinstance(call_stmt.value, ast.Call) and isinstance(call_stmt.value.func, ast.Attribute)
                and call_stmt.value.func.attr == meth and isinstance(call_stmt.value.func.value, ast.Name)
                and not call_stmt.value.args and not call_stmt.value.keywords):
            return call_stmt.value.func.value.id
        return None

    def _with_from_acquire(self, stmts):
        """X.acquire(); try: BODY finally: X.release()   ==>   with X: BODY      (the same critical section, written out)"""
        out, i = [], 0
        while i < len(stmts):
            s = stmts[i]
            x = self._acq_rel(s, "acquire")
            if x is not None and i + 1 < len(stmts):
                t = stmts[i + 1]
                if (isinstance(t, ast.Try) and not t.handlers and not t.orelse and len(t.finalbody) == 1
                        and self._acq_rel(t.finalbody[0], "release") == x):
                    w = ast.With(items=[ast.withitem(context_expr=ast.Name(id=x, ctx=ast.Load()), optional_vars=None)], body=t.body,
                                 lineno=s.lineno, col_offset=0)
                    ast.fix_missing_locations(w)
                    note = f"line {s.lineno}: {x}.acquire() / try / finally {x}.release() read as `with {x}:`"
                    if note not in self.notes:
                        self.notes.append(note)
                    out.append(w)
                    i += 2
                    continue
            out.append(s)
            i += 1
        return out

    def block(self, stmts, ctx, k):
        stmts = self._with_from_acquire(list(stmts))
        nxt = k
        for s in reversed(stmts):
            nxt = self.stmt(s, ctx, nxt)
        return nxt

    def stmt(self, s, ctx, k):
        m = getattr(self, "s_" + type(s).__name__, None)
        if m is None:
            raise Unsupported(f"statement {type(s).__name__} at line {s.lineno}")
        return m(s, ctx, k)

    def s_Pass(self, s, ctx, k):
        return k

    def s_Nonlocal(self, s, ctx, k):
        return k

    def s_Global(self, s, ctx, k):
        return k

    def s_FunctionDef(self, s, ctx, k):
        ctx.env.map[s.name] = ("func", s, ctx.env)
        return k

    def s_Expr(self, s, ctx, k):
        if isinstance(s.value, ast.Constant):
            return k
        if isinstance(s.value, ast.Yield):
            if not ctx.yhook:
                raise Unsupported(f"yield outside an inlined context manager (line {s.lineno})")
            return ctx.yhook(ctx, k)
        return self.expr_to(s.value, ctx, None, k)

    def s_Assign(self, s, ctx, k):
        if len(s.targets) != 1:
            raise Unsupported(f"chained assignment at line {s.lineno}")
        t = s.targets[0]
        if isinstance(t, ast.Name) and isinstance(s.value, ast.ListComp):
            # name = [elt for x in it]   ==>   name = []; for x in it: name.append(elt)      (one generator, no conditions)
            lc = s.value
            if len(lc.generators) != 1 or lc.generators[0].ifs or lc.generators[0].is_async:
                raise Unsupported(f"list comprehension shape at line {s.lineno}")
            gen = lc.generators[0]
            init = ast.Assign(targets=[ast.Name(id=t.id, ctx=ast.Store())], value=ast.List(elts=[], ctx=ast.Load()), lineno=s.lineno, col_offset=0)
            app = ast.Expr(value=ast.Call(func=ast.Attribute(value=ast.Name(id=t.id, ctx=ast.Load()), attr="append", ctx=ast.Load()),
                                          args=[lc.elt], keywords=[]), lineno=s.lineno, col_offset=0)
            loop = ast.For(target=gen.target, iter=gen.iter, body=[app], orelse=[], lineno=s.lineno, col_offset=0)
            for n_ in (init, loop):
                ast.fix_missing_locations(n_)
            self.notes.append(f"line {s.lineno}: list comprehension desugared into a loop with append")
            return self.block([init, loop], ctx, k)
        if isinstance(t, ast.Name):
            return self.expr_to(s.value, ctx, ("name", t.id), k, line=s.lineno)
        if isinstance(t, ast.Tuple) and all(isinstance(e, ast.Name) for e in t.elts):
            tmp = self.tmp(ctx)
            nxt = k
            for idx, e in reversed(list(enumerate(t.elts))):
                nxt = self.store(ctx, ("name", e.id), ("proj", ("tmp", tmp), idx), nxt, s.lineno)
            return self.expr_to(s.value, ctx, ("tmpname", tmp), nxt, line=s.lineno)
        if isinstance(t, ast.Subscript) and isinstance(t.value, ast.Name):
            return self.expr_to(s.value, ctx, ("sub", t.value.id, t.slice), k, line=s.lineno)
        if isinstance(t, ast.Attribute) and isinstance(t.value, ast.Name):
            return self.expr_to(s.value, ctx, ("attr", t.value.id, t.attr), k, line=s.lineno)
        if isinstance(t, ast.Attribute):
            return self.expr_to(s.value, ctx, ("attrx", t.value, t.attr), k, line=s.lineno)
        raise Unsupported(f"assignment target at line {s.lineno}")

    def s_AugAssign(self, s, ctx, k):
        if not isinstance(s.op, (ast.Add, ast.Sub)):
            raise Unsupported(f"augmented operator at line {s.lineno}")
        opn = "+" if isinstance(s.op, ast.Add) else "-"
        if isinstance(s.target, ast.Name):
            load = ast.Name(id=s.target.id, ctx=ast.Load(), lineno=s.lineno, col_offset=0)
            val = ast.BinOp(left=load, op=s.op, right=s.value, lineno=s.lineno, col_offset=0)
            return self.expr_to(val, ctx, ("name", s.target.id), k, line=s.lineno)
        if isinstance(s.target, ast.Subscript) and isinstance(s.target.value, ast.Name):
            # key evaluated once
            keytmp = self.tmp(ctx)
            load = ("subk", s.target.value.id, keytmp)
            cur = self.tmp(ctx)
            rhs = self.tmp(ctx)
            st = self.store(ctx, ("subk", s.target.value.id, keytmp), ("bin", opn, ("tmp", cur), ("tmp", rhs)), k, s.lineno)
            e_rhs = self.expr_to(s.value, ctx, ("tmpname", rhs), st, line=s.lineno)
            ld = self.load(ctx, load, cur, e_rhs, s.lineno)
            return self.expr_to(s.target.slice, ctx, ("tmpname", keytmp), ld, line=s.lineno)
        raise Unsupported(f"augmented assignment target at line {s.lineno}")

    def s_If(self, s, ctx, k):
        t = self.block(s.body, ctx, k)
        f = self.block(s.orelse, ctx, k)
        return self.cond(s.test, ctx, t, f)

    def s_While(self, s, ctx, k):
        if s.orelse:
            raise Unsupported("while-else")
        head = self.emit(ctx, "jump", line=s.lineno)
        body = self.block(s.body, ctx.but(loop=dict(ctx.loop or {}, brk=k, cont=head.label)), head.label)
        if isinstance(s.test, ast.Constant) and s.test.value is True:
            head.nxt = body
        else:
            head.nxt = self.cond(s.test, ctx, body, k)
        return head.label

    def s_Break(self, s, ctx, k):
        if not ctx.loop or "brk" not in ctx.loop:
            raise Unsupported("break")
        return ctx.loop["brk"]

    def s_Continue(self, s, ctx, k):
        if not ctx.loop or "cont" not in ctx.loop:
            raise Unsupported("continue")
        return ctx.loop["cont"]

    def s_For(self, s, ctx, k):
        if s.orelse:
            raise Unsupported("for-else")
        if not isinstance(s.target, ast.Name):
            raise Unsupported(f"for target at line {s.lineno}")
        it = self.tmp(ctx)
        head = self.emit(ctx, "iternext", ("tmp", it), None, s.lineno)
        val = self.tmp(ctx)
        head.dst = val
        body = self.block(s.body, ctx.but(loop=dict(ctx.loop or {}, brk=k, cont=head.label)), head.label)
        head.nxt = self.store(ctx, ("name", s.target.id), ("tmp", val), body, s.lineno)
        head.alt = k
        mk = self.emit(ctx, "iter", None, it, s.lineno)
        mk.nxt = head.label
        src = self.tmp(ctx)
        mk.a = ("tmp", src)
        if isinstance(s.iter, ast.Name):
            r = ctx.env.lookup(s.iter.id)
            if r[0] == "var":
                # a list iterator stays attached to the list object: the model follows the variable (live iteration)
                mk.a = ("tmp", src, r[1])
                self.iter_src[head.label] = r[1]
        return self.expr_to(s.iter, ctx, ("tmpname", src), mk.label, line=s.lineno)

    def s_Return(self, s, ctx, k):
        if ctx.ret is None:
            raise Unsupported(f"return at line {s.lineno} (inside an inlined with-body)")
        if s.value is None or (isinstance(s.value, ast.Constant) and s.value.value is None):
            return ctx.ret(None)
        t = self.tmp(ctx)
        return self.expr_to(s.value, ctx, ("tmpname", t), ctx.ret(("tmp", t)), line=s.lineno)

    def s_Raise(self, s, ctx, k):
        if s.exc is None:
            if ctx.cur_exc is None:
                raise Unsupported("bare raise outside handler")
            r = self.emit(ctx, "raise", ("tmp", ctx.cur_exc), None, s.lineno)
            return r.label
        tmp = self.tmp(ctx)
        r = self.emit(ctx, "raise", ("tmp", tmp), None, s.lineno)
        if s.cause is not None:
            c = self.tmp(ctx)
            setc = self.emit(ctx, "setcause", (("tmp", tmp), ("tmp", c)), tmp, s.lineno)
            setc.nxt = r.label
            e2 = self.expr_to(s.cause, ctx, ("tmpname", c), setc.label, line=s.lineno)
            return self.expr_to(s.exc, ctx, ("tmpname", tmp), e2, line=s.lineno)
        return self.expr_to(s.exc, ctx, ("tmpname", tmp), r.label, line=s.lineno)

    def s_Try(self, s, ctx, k):
        if s.finalbody:
            inner = ast.Try(body=s.body, handlers=s.handlers, orelse=s.orelse, finalbody=[], lineno=s.lineno, col_offset=0)
            body = [inner] if s.handlers else s.body
            return self.try_finally(body, lambda c, kk: self.block(s.finalbody, c, kk), ctx, k, s.lineno)
        # try / except / else
        after_else = self.block(s.orelse, ctx, k)
        # dispatch chain
        unmatched = self.emit(ctx, "reraise", None, None, s.lineno)
        chain = unmatched.label
        for h in reversed(s.handlers):
            saved = self.tmp(ctx)
            hctx = ctx.but(cur_exc=saved)
            hb = self.block(h.body, hctx, k)
            if h.name:
                hb = self.store(hctx, ("name", h.name), ("tmp", saved), hb, h.lineno)
            sv = self.emit(ctx, "assign", ("curexc",), saved, h.lineno)
            sv.nxt = hb
            if h.type is None:
                cls = "BaseException"
            elif isinstance(h.type, ast.Name):
                cls = h.type.id
            elif isinstance(h.type, ast.Attribute):
                cls = h.type.attr
            elif isinstance(h.type, ast.Tuple) and all(isinstance(e, (ast.Name, ast.Attribute)) for e in h.type.elts):
                cls = tuple(e.id if isinstance(e, ast.Name) else e.attr for e in h.type.elts)
            else:
                raise Unsupported(f"except clause type at line {h.lineno}")
            br = self.emit(ctx, "branch", ("excmatch", cls), None, h.lineno)
            br.nxt, br.alt = sv.label, chain
            chain = br.label
        return self.block(s.body, ctx.but(exc=chain), after_else)

    def try_finally(self, body_stmts, final, ctx, k, line, body_fn=None):
        # normal path
        f_norm = final(ctx, k)
        # exception path
        saved = self.tmp(ctx)
        rr = self.emit(ctx, "raise", ("tmp", saved), None, line)
        f_exc_body = final(ctx, rr.label)
        sv = self.emit(ctx, "assign", ("curexc",), saved, line)
        sv.nxt = f_exc_body
        # return path: run the finaliser, then the enclosing return action
        f_ret = (lambda v: final(ctx, ctx.ret(v))) if ctx.ret is not None else None
        ictx = ctx.but(exc=sv.label, ret=f_ret, loop=None)  # break/continue through finally: unsupported
        if body_fn is not None:
            return body_fn(ictx, f_norm)
        return self.block(body_stmts, ictx, f_norm)

    def s_With(self, s, ctx, k):
        if len(s.items) != 1:
            raise Unsupported("with multiple items")
        item = s.items[0]
        ce = item.context_expr
        if isinstance(ce, ast.Name):
            # lock
            r = ctx.env.lookup(ce.id)
            if r[0] != "var":
                raise Unsupported(f"with on {ce.id}")
            lockname = r[1]

            def final(c, kk):
                rel = self.emit(c, "env", ("release", ("shared_const", lockname)), None, s.lineno)
                rel.nxt = kk
                return rel.label

            inner = self.try_finally(s.body, final, ctx.but(held=ctx.held + (lockname,)), k, s.lineno)
            # instructions of the finalisers run with the lock still held
            acq = self.emit(ctx, "env", ("acquire", ("shared_const", lockname)), None, s.lineno)
            acq.nxt = inner
            return acq.label
        if isinstance(ce, ast.Call) and isinstance(ce.func, ast.Name) and ce.func.id in self.funcs:
            fdef = self.funcs[ce.func.id]
            decs = [d.id if isinstance(d, ast.Name) else getattr(d, "attr", "") for d in fdef.decorator_list]
            if "contextmanager" not in decs:
                raise Unsupported(f"with on non-contextmanager {ce.func.id}")
            nyield = sum(isinstance(n, ast.Yield) for n in ast.walk(fdef))
            if nyield != 1 or item.optional_vars is not None:
                raise Unsupported("context manager shape")
            caller_ctx = ctx

            def yhook(yctx, kk):
                # the with-body: compiled in the CALLER's environment, exceptions go where the generator's yield would throw them
                bctx = Ctx(ctx.prog, caller_ctx.env, yctx.exc, None, caller_ctx.held, caller_ctx.fnname, caller_ctx.cur_exc, None, caller_ctx.yhook)
                return self.block(s.body, bctx, kk)

            return self.inline(fdef, ce, ctx, None, k, yhook=yhook, defenv=None)
        raise Unsupported(f"with statement at line {s.lineno}")

    # ------------------------------------------------------------------ inlining
    def inline(self, fdef, call, ctx, dst, k, yhook=None, defenv=None):
        """Inline a call to a known function. Parameters bound to plain names alias them; the result goes to dst."""
        if fdef.args.vararg or fdef.args.kwarg or any(kw.arg is None for kw in call.keywords):
            raise Unsupported(f"call signature of {fdef.name}")
        inst = f"{fdef.name}#{next(self.tmpc)}."
        env = Env(defenv, inst, ctx.env.frame)
        assigned, _ = _assigned_names(fdef)
        params = [a.arg for a in fdef.args.posonlyargs + fdef.args.args]
        kwonly = [a.arg for a in fdef.args.kwonlyargs]
        binds = {}
        for p, a in zip(params, call.args):
            binds[p] = a
        for kw in call.keywords:
            binds[kw.arg] = kw.value
        pre = []
        for p in params + kwonly:
            if p not in binds:
                raise Unsupported(f"default parameter {p} of {fdef.name}")
            a = binds[p]
            if isinstance(a, ast.Name) and not self._reassigned(fdef, p):
                env.map[p] = ctx.env.lookup(a.id)  # alias the caller's variable / function
            else:
                env.map[p] = ("var", inst + p)
                self.var_frames[inst + p] = ctx.env.frame
                pre.append((p, a))
        for n in assigned:
            if n not in env.map:
                env.map[n] = ("var", inst + n)
                self.var_frames[inst + n] = ctx.env.frame
        _predeclare(fdef, env)
        rdst = self._dst_in(ctx, dst) if dst is not None else None

        def ret(v):
            if rdst is None:
                return k
            return self.store(ctx, rdst, v if v is not None else ("const", None), k, call.lineno)

        ictx = Ctx(ctx.prog, env, ctx.exc, ret, ctx.held, fdef.name, None, None, yhook)
        nxt = self.block(fdef.body, ictx, ret(None))
        for p, a in reversed(pre):
            nxt = self.expr_to(a, ctx, ("qualname", inst + p), nxt, line=call.lineno)
        return nxt

    def _dst_in(self, ctx, dst):
        # dst was expressed relative to the caller's env: resolve it now
        if dst[0] == "name":
            r = ctx.env.lookup(dst[1])
            if r[0] != "var":
                raise Unsupported(f"assignment to {dst[1]}")
            return ("qualname", r[1])
        return dst

    def _reassigned(self, fdef, p):
        return any(isinstance(n, ast.Name) and n.id == p and isinstance(n.ctx, ast.Store) for n in ast.walk(fdef))

    # ------------------------------------------------------------------ loads / stores
    def _count_assign(self, q):
        self.assign_sites[q] = self.assign_sites.get(q, 0) + 1

    def store(self, ctx, dst, expr, k, line):
        """dst: ('name', n) | ('tmpname', t) | ('qualname', q) | ('sub', mapname, keyast) | ('subk', mapname, keytmp) | ('attr', obj, attr)"""
        if dst is None:
            i = self.emit(ctx, "assign", expr, None, line)
            i.nxt = k
            return i.label
        kind = dst[0]
        if kind == "name":
            r = ctx.env.lookup(dst[1])
            if r[0] != "var":
                raise Unsupported(f"assignment to non-variable {dst[1]} (line {line})")
            return self.store(ctx, ("qualname", r[1]), expr, k, line)
        if kind == "qualname":
            q = dst[1]
            self._count_assign(q)
            i = self.emit(ctx, "store", expr, q, line)
            i.nxt = k
            self._note_use(ctx, q)
            return i.label
        if kind == "tmpname":
            i = self.emit(ctx, "assign", expr, dst[1], line)
            i.nxt = k
            return i.label
        if kind == "subk":
            r = ctx.env.lookup(dst[1])
            if r[0] != "var":
                raise Unsupported("subscript store on non-variable")
            self.map_stores.add(r[1])
            self._note_use(ctx, r[1])
            i = self.emit(ctx, "storemap", (r[1], ("tmp", dst[2]), expr), None, line)
            i.nxt = k
            return i.label
        if kind == "sub":
            kt = self.tmp(ctx)
            st = self.store(ctx, ("subk", dst[1], kt), expr, k, line)
            return self.expr_to(dst[2], ctx, ("tmpname", kt), st, line=line)
        if kind == "attr":
            r = ctx.env.lookup(dst[1])
            objq = r[1] if r[0] == "var" else dst[1]
            i = self.emit(ctx, "storeattr", (("var", objq), dst[2], expr), None, line)
            i.nxt = k
            return i.label
        if kind == "attrx":
            ot = self.tmp(ctx)
            i = self.emit(ctx, "storeattr", (("tmp", ot), dst[2], expr), None, line)
            i.nxt = k
            return self.expr_to(dst[1], ctx, ("tmpname", ot), i.label, line=line)
        raise Unsupported(f"store kind {kind}")

    def load(self, ctx, what, tmpname, k, line):
        if what[0] == "subk":
            r = ctx.env.lookup(what[1])
            if r[0] != "var":
                raise Unsupported("subscript load on non-variable")
            self._note_use(ctx, r[1])
            i = self.emit(ctx, "loadmap", (r[1], ("tmp", what[2])), tmpname, line)
            i.nxt = k
            return i.label
        raise Unsupported("load")

    def _note_use(self, ctx, q):
        if ctx.env.frame == "thread" and self.var_frames.get(q) == "main":
            self.closure_vars.add(q)

    # ------------------------------------------------------------------ expressions
    def cond(self, e, ctx, t, f):
        """Compile a condition with short-circuit; returns entry label."""
        if isinstance(e, ast.BoolOp):
            vals = e.values
            if isinstance(e.op, ast.And):
                nxt = t
                for v in reversed(vals):
                    nxt = self.cond(v, ctx, nxt, f)
                return nxt
            nxt = f
            for v in reversed(vals):
                nxt = self.cond(v, ctx, t, nxt)
            return nxt
        if isinstance(e, ast.UnaryOp) and isinstance(e.op, ast.Not):
            return self.cond(e.operand, ctx, f, t)
        tmp = self.tmp(ctx)
        br = self.emit(ctx, "branch", ("truth", ("tmp", tmp)), None, getattr(e, "lineno", 0))
        br.nxt, br.alt = t, f
        return self.expr_to(e, ctx, ("tmpname", tmp), br.label, line=getattr(e, "lineno", 0))

    def expr_to(self, e, ctx, dst, k, line=0):
        """Evaluate expression e (hoisting shared accesses into their own instructions) and store into dst; continue at k."""
        line = getattr(e, "lineno", line) or line
        if dst is not None and dst[0] == "name":
            dst = self._dst_in(ctx, dst)
        pre = []  # list of functions kk -> label, applied in evaluation order
        tree = self.pure(e, ctx, pre, line)
        if tree is None:
            # e is an effectful call compiled directly
            return self._effect(e, ctx, dst, k, line)
        nxt = self.store(ctx, dst, tree, k, line) if dst is not None else k
        for f in reversed(pre):
            nxt = f(nxt)
        return nxt

    def pure(self, e, ctx, pre, line):
        """Return an expression tree over tmps/locals; emits hoisted loads into `pre`. Returns None if e is an effectful call."""
        if isinstance(e, ast.Constant):
            return ("const", e.value)
        if isinstance(e, ast.Name):
            r = ctx.env.lookup(e.id)
            if r[0] == "var":
                q = r[1]
                self._note_use(ctx, q)
                t = self.tmp(ctx)

                def f(kk, q=q, t=t):
                    i = self.emit(ctx, "load", q, t, line)
                    i.nxt = kk
                    return i.label

                pre.append(f)
                return ("tmp", t)
            if r[0] == "func":
                return ("func", r[1].name, r)
            return ("glob", r[1])
        if isinstance(e, ast.UnaryOp) and isinstance(e.op, ast.Not):
            return ("not", self._sub(e.operand, ctx, pre, line))
        if isinstance(e, ast.Compare) and len(e.ops) == 1:
            l = self._sub(e.left, ctx, pre, line)
            op = e.ops[0]
            if isinstance(op, (ast.In, ast.NotIn)):
                c = e.comparators[0]
                if not isinstance(c, ast.Name):
                    raise Unsupported("membership in non-name")
                r = ctx.env.lookup(c.id)
                self._note_use(ctx, r[1]) if r[0] == "var" else None
                return ("in", l, r[1], isinstance(op, ast.NotIn))
            r_ = self._sub(e.comparators[0], ctx, pre, line)
            if isinstance(op, (ast.Is, ast.IsNot)):
                return ("is", l, r_, isinstance(op, ast.IsNot))
            ops = {ast.Eq: "==", ast.NotEq: "!=", ast.Lt: "<", ast.LtE: "<=", ast.Gt: ">", ast.GtE: ">="}
            if type(op) not in ops:
                raise Unsupported("comparison operator")
            return ("cmp", ops[type(op)], l, r_)
        if isinstance(e, ast.BinOp) and isinstance(e.op, (ast.Add, ast.Sub)):
            return ("bin", "+" if isinstance(e.op, ast.Add) else "-", self._sub(e.left, ctx, pre, line), self._sub(e.right, ctx, pre, line))
        if (isinstance(e, ast.BoolOp) and isinstance(e.op, ast.Or) and len(e.values) == 2
                and isinstance(e.values[1], (ast.Tuple, ast.List)) and not e.values[1].elts):
            # `x or ()` / `x or []`: value semantics -- x when it is truthy, else the empty sequence
            t = self.tmp(ctx)

            def f(kk, e=e, t=t):
                keep = self.emit(ctx, "jump", None, None, line)
                keep.nxt = kk
                other = self.store(ctx, ("tmpname", t), ("emptylist",), kk, line)
                br = self.emit(ctx, "branch", ("truth", ("tmp", t)), None, line)
                br.nxt, br.alt = keep.label, other
                return self.expr_to(e.values[0], ctx, ("tmpname", t), br.label, line=line)

            pre.append(f)
            return ("tmp", t)
        if isinstance(e, ast.BoolOp) or isinstance(e, ast.IfExp):
            # short-circuit value: compile through branches into a tmp
            t = self.tmp(ctx)

            def f(kk, e=e, t=t):
                if isinstance(e, ast.IfExp):
                    a = self.expr_to(e.body, ctx, ("tmpname", t), kk, line)
                    b = self.expr_to(e.orelse, ctx, ("tmpname", t), kk, line)
                    return self.cond(e.test, ctx, a, b)
                # a and b -> value semantics approximated by truth values (only used in conditions in this code base)
                tt = self.store(ctx, ("tmpname", t), ("const", True), kk, line)
                ff = self.store(ctx, ("tmpname", t), ("const", False), kk, line)
                return self.cond(e, ctx, tt, ff)

            pre.append(f)
            if isinstance(e, ast.BoolOp):
                self.notes.append(f"line {line}: BoolOp used as a value is reduced to its truth value")
            return ("tmp", t)
        if isinstance(e, ast.Subscript) and isinstance(e.value, ast.Name):
            r = ctx.env.lookup(e.value.id)
            if r[0] != "var":
                raise Unsupported("subscript of non-variable")
            kt = self.tmp(ctx)
            ktree = self._sub(e.slice, ctx, pre, line)
            t = self.tmp(ctx)
            q = r[1]
            self._note_use(ctx, q)

            def f(kk, q=q, t=t, ktree=ktree, kt=kt):
                i = self.emit(ctx, "loadmap", (q, ktree), t, line)
                i.nxt = kk
                return i.label

            pre.append(f)
            return ("tmp", t)
        if isinstance(e, ast.Attribute):
            o = self._sub(e.value, ctx, pre, line)
            t = self.tmp(ctx)

            def f(kk, o=o, t=t, attr=e.attr):
                i = self.emit(ctx, "loadattr", (o, attr), t, line)
                i.nxt = kk
                return i.label

            pre.append(f)
            return ("tmp", t)
        if isinstance(e, ast.Tuple) and not e.elts:
            return ("emptylist",)
        if isinstance(e, ast.Tuple):
            return ("tuple",) + tuple(self._sub(x, ctx, pre, line) for x in e.elts)
        if isinstance(e, ast.List) and not e.elts:
            return ("emptylist",)
        if isinstance(e, ast.Call):
            t = self.tmp(ctx)

            def f(kk, e=e, t=t):
                return self._effect(e, ctx, ("tmpname", t), kk, line)

            pre.append(f)
            return ("tmp", t)
        raise Unsupported(f"expression {type(e).__name__} at line {line}")

    def _sub(self, e, ctx, pre, line):
        r = self.pure(e, ctx, pre, line)
        assert r is not None
        return r

    def _effect(self, e, ctx, dst, k, line):
        if not isinstance(e, ast.Call):
            raise Unsupported("effect")
        f = e.func
        # known local / module functions -> inline
        if isinstance(f, ast.Name):
            r = ctx.env.lookup(f.id)
            if r[0] == "func":
                return self.inline(r[1], e, ctx, dst, k, defenv=r[2])
            if r[0] == "glob" and f.id in self.funcs and f.id not in ENV_FUNCS:
                return self.inline(self.funcs[f.id], e, ctx, dst, k, defenv=None)
            if r[0] == "var":
                # calling a variable: the user function `fn`, or a function-valued parameter
                pre = []
                args = [self._sub(a, ctx, pre, line) for a in e.args]
                self._note_use(ctx, r[1])
                i = self.emit(ctx, "env", ("callvar", r[1], args), None, line)
                out = self._finish_env(i, ctx, dst, k, line)
                for g in reversed(pre):
                    out = g(out)
                return out
            name = f.id
            pre = []
            args = [self._sub(a, ctx, pre, line) for a in e.args]
            kws = {kw.arg: self._sub(kw.value, ctx, pre, line) for kw in e.keywords}
            i = self.emit(ctx, "env", ("call", name, args, kws), None, line)
            out = self._finish_env(i, ctx, dst, k, line)
            for g in reversed(pre):
                out = g(out)
            return out
        if isinstance(f, ast.Attribute):
            pre = []
            if isinstance(f.value, ast.Name):
                r = ctx.env.lookup(f.value.id)
                if r[0] == "var":
                    self._note_use(ctx, r[1])
                    obj = ("objvar", r[1])
                    if f.attr in LIST_MUTATORS:
                        self.list_mut_vars.add(r[1])
                else:
                    obj = ("glob", r[1])
            else:
                obj = self._sub(f.value, ctx, pre, line)
            args = [self._sub(a, ctx, pre, line) for a in e.args]
            kws = {kw.arg: self._sub(kw.value, ctx, pre, line) for kw in e.keywords}
            i = self.emit(ctx, "env", ("method", obj, f.attr, args, kws), None, line)
            out = self._finish_env(i, ctx, dst, k, line)
            for g in reversed(pre):
                out = g(out)
            return out
        raise Unsupported(f"call form at line {line}")

    def _finish_env(self, i, ctx, dst, k, line):
        if dst is None:
            i.nxt = k
            return i.label
        t = self.tmp(ctx)
        i.dst = t
        i.nxt = self.store(ctx, dst, ("tmp", t), k, line)
        return i.label

    # ------------------------------------------------------------------ thread programs
    def compile_thread(self, fref):
        """fref = ('func', FunctionDef, Env): compile the thread body once."""
        fdef, defenv = fref[1], fref[2]
        if self.worker is not None:
            if self.worker_def is not fdef:
                raise Unsupported("more than one kind of thread function")
            return
        self.worker_def = fdef
        self.worker = Program("worker")
        env = Env(defenv, "T.", "thread")
        assigned, _ = _assigned_names(fdef)
        if fdef.args.args:
            raise Unsupported("thread target with parameters")
        for n in assigned:
            env.map[n] = ("var", "T." + n)
            self.var_frames["T." + n] = "thread"
        _predeclare(fdef, env)
        end = self.worker.new("end", "return")
        endx = self.worker.new("end", "raise")
        self.worker_end, self.worker_endx = end.label, endx.label
        ctx = Ctx(self.worker, env, endx.label, lambda v: end.label, (), fdef.name)
        # nested inlines inside the thread allocate thread-frame variables
        self.worker.entry = self.block(fdef.body, ctx, end.label)

    def _finalize(self):
        # find the thread function: first env instr Thread(target=func)
        for i in list(self.main.instrs.values()):
            if i.op == "env" and i.a[0] == "method" and i.a[2] == "Thread":
                tgt = i.a[4].get("target")
                if tgt is None or tgt[0] not in ("func", "tmp"):
                    raise Unsupported("Thread target")
        # resolve thread target by scanning for ('func', name, ref) trees stored anywhere
        self.thread_ref = None
        for i in self.main.instrs.values():
            for t in _walk_tree(i.a):
                if isinstance(t, tuple) and len(t) == 3 and t[0] == "func" and isinstance(t[2], tuple):
                    fdef = t[2][1]
                    if any(isinstance(n, (ast.While, ast.For)) for n in ast.walk(fdef)) and not fdef.args.args and self._is_thread_target(fdef):
                        self.thread_ref = t[2]
        if self.thread_ref is not None:
            self.compile_thread(self.thread_ref)

    def _is_thread_target(self, fdef):
        return True


ENV_FUNCS = {"assert_acyclic", "prepare_nodes", "create_queue", "coerce_worker_count", "coerce_max_errors", "predecessor_count"}


def _walk_tree(t):
    if isinstance(t, (tuple, list)):
        yield t
        for x in t:
            yield from _walk_tree(x)
    elif isinstance(t, dict):
        for x in t.values():
            yield from _walk_tree(x)
