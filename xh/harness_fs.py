"""E1 harnesses for C11 (atomic replacement at every failure point) and C12 (read-after-write, get_modified_time).

The real uberjob store classes / helpers run against ModelFS (xh/modelfs.py).  Per condition the case split is concrete
(environment): store class, path kind, encoding, buffering mode, value index; the fault indices, the death index, the
old content / presence flags and (Text/Binary/helpers) the written values are symbolic.

Every harness function is a *scenario* (backend-agnostic: it only talks to the uberjob API and to the `fs` object) plus a
*verdict* computed from the scenario's observations.  Under CrossHair the scenario runs on ModelFS only.  When a harness
function is called concretely (replay of a solver model, reachability witness, sanity sweep) the same scenario is ALSO run
on the real file system (modelfs.RealFS: a private temp directory, real open/os.replace, injected faults, death =
os._exit in a forked child) and the two observation records must be equal -- otherwise the process exits with code 12
("model does not reproduce" -> harness error, never a violation).
"""
import os
import pathlib
import sys

import world as W  # puts VERIF_SRC first on sys.path, imports the real uberjob
from world import begin, ok

import modelfs as M
from modelfs import ROOT, T0, Die, ModelFS

import uberjob  # noqa: E402
from uberjob.stores import (  # noqa: E402
    BinaryFileStore,
    JsonFileStore,
    MountedStore,
    PickleFileStore,
    TextFileStore,
    TouchFileStore,
    get_modified_time,
    staged_write,
    staged_write_path,
)

assert uberjob.__file__.startswith(os.environ.get("VERIF_SRC", "/repo/src")), uberjob.__file__
M.install()

try:
    from crosshair.tracers import is_tracing
except Exception:  # pragma: no cover

    def is_tracing():
        return False


STORE = os.environ.get("XH_STORE", "text")  # text binary json pickle touch sw swp
PK = os.environ.get("XH_PK", "str")  # str | path
ENC = {"none": None}.get(os.environ.get("XH_ENC", "none"), os.environ.get("XH_ENC", "none"))
EAGER = os.environ.get("XH_EAGER", "0") == "1"
FK = os.environ.get("XH_FK", "both")  # which fault kinds are free in this condition: both | raise | die
VAL = int(os.environ.get("XH_VAL", "0"))
MAXLEN = int(os.environ.get("XH_LEN", "3"))
LV = int(os.environ.get("XH_LV", "2"))  # C11: length bound of the symbolic values
HADOLD = int(os.environ.get("XH_OLD", "-1"))  # C11: fix the had_old flag in this condition (-1: symbolic)
UFIX = int(os.environ.get("XH_UF", "-2"))  # C11 helpers: fix the position of the user-code fault (-2: symbolic)
MOUNT = os.environ.get("XH_MOUNT", "0") == "1"
MIRROR = os.environ.get("XH_MIRROR", "1") == "1"

OLD_T = T0 - 1000.0


class UserError(Exception):
    """raised by the 'user code' inside a staged_write / staged_write_path block"""


class UserAbort(BaseException):
    """a non-Exception raised by the user code (KeyboardInterrupt-like)"""


class NotJson:
    pass


def _unpicklable():
    return lambda: 0


def _cyclic():
    shared = ["s"]
    v = [1, shared, shared]
    v.append(v)
    return v


# concrete values for the C serialisers (CrossHair would realise symbolic ones there anyway)
JSON_VALUES = [
    {"k": [1, -2.5, "é\r\n \x00", None, True], "": {}},
    "a\rb\r\nc",
    [],
    [[[["deep", {"x": [False]}]]]],
    0,
    None,
    "\ud800",  # lone surrogate: json escapes it, so it is inside the store's domain
]
JSON_BAD = [[1, NotJson()], {"k": [1, 2, NotJson()]}]  # chunks are written, then TypeError
PICKLE_VALUES = [
    (1, "a\r\n\x00", b"\x00\xff\r\n", None, -2.5, frozenset({1, 2})),
    {"k": [1, {"n": (1, 2)}], 2: {3}},
    "",
    b"",
    [[[[0]]]],
    3 + 4j,
    _cyclic(),  # a picklable value whose object graph has a cycle (a list that contains itself) and a shared sub-object
]
TEXT_BAD = "ab\ud800"  # no codec of the case split can encode a lone surrogate: write() raises UnicodeEncodeError
PICKLE_BAD = [[1, _unpicklable()], {"k": NotJson, "f": _unpicklable()}]


# small values for C11 (every chunk the serialiser writes is a fault point: keep the number of chunks small)
C11_JSON = [[1, "a\r"], {"k": None}, "x"]
C11_PICKLE = [(1, "a\r\n"), {"k": [b"\x00"]}]


def same(a, b, _seen=None):
    """equal and of the same type, recursively (cycle-safe: a pair of containers under comparison is assumed equal when met again)"""
    if a is b:
        return True  # (also avoids comparing a symbolic value with itself element by element)
    if type(a) is not type(b):
        return False
    if isinstance(a, (list, dict)):
        _seen = _seen if _seen is not None else set()
        if (id(a), id(b)) in _seen:
            return True
        _seen.add((id(a), id(b)))
    if isinstance(a, (list, tuple)):
        return len(a) == len(b) and all(same(x, y, _seen) for x, y in zip(a, b))
    if isinstance(a, dict):
        if len(a) != len(b):
            return False
        for k in a:
            if k not in b or not same(a[k], b[k], _seen):
                return False
        return all(any(type(k) is type(k2) and k == k2 for k2 in b) for k in a)
    return a == b


def _path(name):
    p = f"{ROOT}/d/{name}"
    return pathlib.Path(p) if PK == "path" else p


def _store(path, kind=None):
    kind = kind or STORE
    if kind == "text":
        return TextFileStore(path, encoding=ENC)
    if kind == "binary" or kind in ("sw", "swp"):
        return BinaryFileStore(path)
    if kind == "json":
        return JsonFileStore(path, encoding=ENC)
    if kind == "pickle":
        return PickleFileStore(path)
    if kind == "touch":
        return TouchFileStore(path)
    raise AssertionError(kind)


class Mount(MountedStore):
    """A MountedStore whose 'remote' is another path of the same file system; the copy functions move bytes."""

    __slots__ = ("remote",)

    def __init__(self, create_store, remote):
        super().__init__(create_store)
        self.remote = remote

    def copy_to_local(self, local_path):
        M.cur().copy(self.remote, local_path)

    def copy_from_local(self, local_path):
        M.cur().copy(local_path, self.remote)

    def get_modified_time(self):
        return get_modified_time(self.remote)


def _snapshot(fs):
    """[(path, content)] of every file, and the mtime of each -- backend independent."""
    out = []
    if fs.kind == "model":
        for p, ino in fs.files:
            out.append((p, ino.data, ino.mtime))
    else:
        for p in fs.listing():
            out.append((p, fs.content(p), fs.getmtime(p)))
    return out


def _outcome(fn):
    """Run fn: ('ok', result) | ('exc', type name).  Die / CrossHair control exceptions pass through."""
    try:
        return ("ok", fn())
    except Die:
        raise
    except (Exception, UserAbort) as e:
        return ("exc", type(e).__name__)


# ================================================================================================== C11
def _c11_value(vs, vb, bad):
    if STORE == "text":
        return TEXT_BAD if bad else vs
    if STORE in ("binary", "sw", "swp"):
        return vb
    if STORE == "json":
        L = JSON_BAD if bad else C11_JSON
        return L[VAL % len(L)]
    if STORE == "pickle":
        L = PICKLE_BAD if bad else C11_PICKLE
        return L[VAL % len(L)]
    return None


def _c11_do_write(fs, target, value, vb2, uf, ub):
    """One write of `value` through the store class / helper under test."""
    if STORE == "sw":
        with staged_write(target, "wb") as f:
            if uf == 0:
                raise (UserAbort() if ub else UserError())
            f.write(value)
            if uf == 1:
                raise (UserAbort() if ub else UserError())
            f.write(vb2)
            if uf == 2:
                raise (UserAbort() if ub else UserError())
    elif STORE == "swp":
        with staged_write_path(target) as sp:
            if uf == 0:
                raise (UserAbort() if ub else UserError())
            with M.m_open(sp, "wb") as f:
                f.write(value)
                f.write(vb2)
            if uf == 1:
                raise (UserAbort() if ub else UserError())
    else:
        _store(target).write(value)


def _c11_reference(value, vb2):
    """Content a fault-free write produces on an empty file system (= 'the complete new value'); None if the write
    itself fails (value outside the store's domain: not serialisable / not encodable)."""
    ref = M.use(ModelFS(eager=EAGER))
    target = _path("u.dat")
    try:
        _c11_do_write(ref, target, value, vb2, -1, False)
    except Exception:
        return None, ref.ops
    ino = ref.lookup(target)
    return (None if ino is None else ino.data), ref.ops


def _c11_scenario(fs, phase, had_old, old, value, vb2, uf, ub, value2):
    """phase 1: the faulty write.  phase 2 (a new process): a later write + read.  Returns the observation record."""
    M.use(fs)
    target = _path("u.dat")
    if phase == 1:
        if had_old:
            fs.put(target, old, OLD_T)
        try:
            out = _outcome(lambda: _c11_do_write(fs, target, value, vb2, uf, ub))
        except Die:
            out = ("died", None)
        return out
    fs.reboot()
    st = _store(target)
    out2 = _outcome(lambda: st.write(value2))
    rd = _outcome(st.read)
    return (out2, rd)


def _c11_real(had_old, old, value, vb2, uf, ub, value2, faults, die_at):
    """The same scenario on the real file system; death = os._exit in a forked child."""
    import tempfile

    with tempfile.TemporaryDirectory() as base:
        fs = M.RealFS(base, faults=faults, die_at=die_at, eager=EAGER)
        if die_at >= 0:
            r, w = os.pipe()
            pid = os.fork()
            if pid == 0:
                try:
                    os.close(r)
                    o = _c11_scenario(fs, 1, had_old, old, value, vb2, uf, ub, value2)
                    os.write(w, repr((o[0], o[1] if o[0] == "exc" else None)).encode())
                finally:
                    os._exit(0)
            os.close(w)
            data = b""
            while True:
                chunk = os.read(r, 4096)
                if not chunk:
                    break
                data += chunk
            os.close(r)
            os.waitpid(pid, 0)
            out1 = eval(data.decode()) if data else ("died", None)
        else:
            out1 = _c11_scenario(fs, 1, had_old, old, value, vb2, uf, ub, value2)
        snap1 = _snapshot(fs)
        out2 = _c11_scenario(fs, 2, had_old, old, value, vb2, uf, ub, value2)
        snap2 = _snapshot(fs)
    return out1, snap1, out2, snap2


def _norm_snap(snap):
    """comparable form: sorted (path, content, mtime-is-the-old-one)"""
    return sorted((p, bytes(d), t == OLD_T) for p, d, t in snap)


def _mismatch(what, a, b):
    sys.stdout.flush()
    print(f"MODEL-MISMATCH {what}:\n  model: {a!r}\n  real:  {b!r}", flush=True)
    os._exit(12)


def _c11_verdict(target, had_old, old, get_new, out1, snap1, out2, snap2, value2):
    """get_new(): the complete new content (None if a fault-free write of this value fails) -- computed on demand."""
    tgt = [e for e in snap1 if e[0] == target]
    others = [e for e in snap1 if e[0] != target]
    if tgt:
        _, data, mt = tgt[0]
        is_old = lambda: had_old and mt == OLD_T and (data is old or data == old)  # noqa: E731

        def is_new():
            new = get_new()
            return new is not None and (data is new or data == new)
    else:
        is_old = lambda: not had_old  # noqa: E731
        is_new = lambda: False  # noqa: E731
    if out1[0] == "ok":
        if not is_new():
            return False  # the write reported success but the new value is not in place
    elif not (is_old() or is_new()):
        return False  # truncated / mixed content, or the mtime changed although the new value is not in place
    if out1[0] != "died" and others:
        return False  # a staging (or any other) file was left behind although the process is alive
    # phase 2: a later write + read is not disturbed
    w2, r2 = out2
    if w2[0] != "ok" or r2[0] != "ok":
        return False
    if not same(r2[1], value2):
        return False
    if [e[0] for e in snap2] != [target]:
        return False
    return True


def c11_write(had_old: bool, old: bytes, vs: str, vb: bytes, vb2: bytes, uf: int, ub: bool, bad: bool,
              k1: int, k2: int, d: int) -> bool:
    """
    Atomic replacement.  k1 < k2: operations that raise OSError (-1: none); d: operation before which the process dies.

    pre: len(old) <= 2 and len(vs) <= LV and len(vb) <= LV and len(vb2) <= 1
    pre: all(ord(c) < 128 for c in vs)
    pre: k1 >= -1 and (k2 == -1 or k2 > k1 >= 0) and d >= -1
    pre: -1 <= uf <= 2
    pre: HADOLD < 0 or had_old == (HADOLD == 1)
    pre: UFIX < -1 or uf == UFIX
    post: _
    """
    begin()
    if FK == "raise" and d != -1:
        return True
    if FK == "die" and (k1 != -1 or k2 != -1):
        return True
    if STORE not in ("sw", "swp") and (uf != -1 or ub):
        return True  # user-code faults exist for the helpers only
    if STORE not in ("json", "pickle", "text") and bad:
        return True  # 'bad' selects a value whose serialisation fails part-way (C serialisers)
    if uf == -1 and ub:
        return True
    value = _c11_value(vs, vb, bad)
    value2 = {"text": "later\r\n", "json": ["later"], "pickle": ("later",), "touch": None}.get(STORE, b"later\r\n")
    faults = [k for k in (k1, k2) if k != -1]
    fs = ModelFS(faults=faults, die_at=d, eager=EAGER)
    out1 = _c11_scenario(fs, 1, had_old, old, value, vb2, uf, ub, value2)
    snap1 = _snapshot(fs)
    fired = fs.fired
    out2 = _c11_scenario(fs, 2, had_old, old, value, vb2, uf, ub, value2)
    snap2 = _snapshot(fs)
    target = str(_path("u.dat"))
    cache = []

    def get_new():
        if not cache:
            cache.append(_c11_reference(value, vb2)[0])
        return cache[0]

    good = _c11_verdict(target, had_old, old, get_new, out1, snap1, out2, snap2, value2)
    if MIRROR and not is_tracing():
        r1, rs1, r2, rs2 = _c11_real(had_old, old, value, vb2, uf, ub, value2, faults, d)
        mine = (out1, _norm_snap(snap1), out2, _norm_snap(snap2))
        real = (r1, _norm_snap(rs1), r2, _norm_snap(rs2))
        if mine != real:
            _mismatch("c11_write", mine, real)
    if not good:
        return False
    if fired == 0 and out1[0] == "ok":
        return True  # no fault happened on this path (covered by C12): not a witness for the vacuity twin
    return ok()


# ================================================================================================== C12
def _c12_scenario(fs, value, had_old, old, inacc):
    """get_modified_time / write / read / get_modified_time / write / get_modified_time on one store."""
    M.use(fs)
    remote = _path("v.dat")
    if MOUNT:
        st = Mount(lambda p: _store(p), remote)
    else:
        st = _store(remote)
    if had_old:
        fs.put(remote, old, OLD_T)
    if inacc:
        fs.inaccessible.append(str(remote))
    m0 = _outcome(st.get_modified_time)
    fs.inaccessible = []
    w = _outcome(lambda: st.write(value))
    m1 = _outcome(st.get_modified_time)
    r = _outcome(st.read)
    w2 = _outcome(lambda: st.write(value))
    m2 = _outcome(st.get_modified_time)
    r2 = _outcome(st.read)
    files = [p for p, _, _ in _snapshot(fs)]
    return m0, w, m1, r, w2, m2, r2, files


def _c12_verdict(obs, value, had_old, inacc):
    m0, w, m1, r, w2, m2, r2, files = obs
    if m0[0] != "ok" or (m0[1] is None) != (not had_old or inacc):
        return False  # None exactly when nothing is stored (or the path is inaccessible)
    if w != ("ok", None) or w2 != ("ok", None):
        return False
    for x in (r, r2):
        if x[0] != "ok" or not same(x[1], value):
            return False  # read after write: equal and of the same type
    if m1[0] != "ok" or m1[1] is None or m2[0] != "ok" or m2[1] is None:
        return False
    if m2[1] < m1[1]:
        return False  # never decreases across successive writes (constant-offset clock)
    if had_old and not inacc and m1[1] < m0[1]:
        return False
    if files != [str(_path("v.dat"))]:
        return False  # nothing but the stored file remains (no staging file, no temporary directory content)
    return True


def _c12_common(value, had_old, old, inacc):
    fs = ModelFS(eager=EAGER)
    obs = _c12_scenario(fs, value, had_old, old, inacc)
    good = _c12_verdict(obs, value, had_old, inacc)
    if MIRROR and not is_tracing():
        import tempfile

        with tempfile.TemporaryDirectory() as base:
            robs = _c12_scenario(M.RealFS(base, eager=EAGER), value, had_old, old, inacc)

        def norm(o):  # modified times: compare None-ness and order, not the instants
            m0, w, m1, r, w2, m2, r2, files = o
            ms = [m0, m1, m2]
            return ([(m[0], m[1] is None) for m in ms], m2[1] is not None and m1[1] is not None and m2[1] >= m1[1],
                    w, r, w2, r2, sorted(files))

        if not same(norm(obs), norm(robs)):  # (same() is cycle-safe: read values may be cyclic object graphs)
            _mismatch("c12", "model and real file system observations differ", "")
    return good


_CLASS_BOUNDS = [0, 0x80, 0x800, 0xD800, 0xE000, 0x10000, 0x110000]
LENEQ = int(os.environ.get("XH_LENEQ", "-1"))  # exact length of s in this condition (-1: any length <= XH_LEN)
C0 = int(os.environ.get("XH_C0", "-1"))  # code point class of s[0] in this condition (-1: any)


def c12_text(s: str, had_old: bool, old: bytes) -> bool:
    """
    Round trip of a symbolic str.  Case split (environment): encoding, path kind, mounted, buffering, and optionally the
    exact length (XH_LENEQ) and the code point class of the first character (XH_C0: index into _CLASS_BOUNDS).

    pre: len(s) <= MAXLEN and len(old) <= 2
    pre: LENEQ < 0 or len(s) == LENEQ
    pre: C0 < 0 or (len(s) > 0 and _CLASS_BOUNDS[C0] <= ord(s[0]) < _CLASS_BOUNDS[C0 + 1])
    post: _
    """
    begin()
    try:
        M.encode(s, ENC)
    except UnicodeEncodeError:
        return True  # outside the store's domain: the encoding cannot represent the value
    if not _c12_common(s, had_old, old, False):
        return False
    return ok()


def c12_binary(b: bytes, had_old: bool, old: bytes, inacc: bool) -> bool:
    """
    pre: len(b) <= 3 and len(old) <= 2
    post: _
    """
    begin()
    if not _c12_common(b, had_old, old, inacc):
        return False
    return ok()


def c12_value(had_old: bool, old: bytes, inacc: bool) -> bool:
    """
    Json / Pickle / Touch: the value is concrete (index XH_VAL); the store plumbing state is symbolic.

    pre: len(old) <= 2
    post: _
    """
    begin()
    L = {"json": JSON_VALUES, "pickle": PICKLE_VALUES, "touch": [None]}[STORE]
    value = L[VAL % len(L)]
    if not _c12_common(value, had_old, old, inacc):
        return False
    return ok()


# ================================================================================================== two writers
NAMES = ["r", "r.txt", "r.json", "r.tar.gz", ".r", "r.", "r.tar.bz2", "s.txt", "r.txt.bak", "r.t"]
NGRID = int(os.environ.get("XH_NGRID", "6"))
J = int(os.environ.get("XH_J", "3"))


def _two_scenario(fs, pa, pb, da, db, j, inside):
    """Store A (BinaryFileStore.write, the real call) is overlapped by a write to a different store B: just before A's
    j-th file operation B opens its staging file and writes (and, if `inside`, also finishes); otherwise B finishes
    after A has returned.  Then both are read back."""
    M.use(fs)
    if MOUNT:
        # through MountedStore: each store stages its value in a local scratch file of its own before / after the remote copy
        A, B = Mount(lambda p: BinaryFileStore(p), pa), Mount(lambda p: BinaryFileStore(p), pb)
    else:
        A, B = BinaryFileStore(pa), BinaryFileStore(pb)
    state = {"own": 0, "busy": False, "cm": None, "wb": None}

    def hook(fs_, i, kind, path):
        if state["busy"]:
            return
        n = state["own"]
        state["own"] = n + 1
        if n == j and MOUNT:
            # B's whole write (local staging + copy to its remote) happens between two file operations of A's write
            state["busy"] = True
            state["wb"] = _outcome(lambda: B.write(db))
            state["busy"] = False
            return
        if n == j:
            state["busy"] = True
            cm = staged_write(pb, "wb")
            f = cm.__enter__()
            f.write(db)
            if inside:
                cm.__exit__(None, None, None)
            else:
                state["cm"] = cm
            state["busy"] = False

    fs.hook = hook
    wa = _outcome(lambda: A.write(da))
    fs.hook = None
    started = state["own"] > j
    if state["wb"] is not None:
        wb = state["wb"]
    elif state["cm"] is not None:
        wb = _outcome(lambda: state["cm"].__exit__(None, None, None))
    elif started:
        wb = ("ok", None)
    else:
        wb = _outcome(lambda: B.write(db))
    ra = _outcome(A.read)
    rb = _outcome(B.read)
    return wa, wb, ra, rb, len(_snapshot(fs))


def _two_verdict(obs, da, db):
    wa, wb, ra, rb, nfiles = obs
    if wa[0] != "ok" or wb[0] != "ok":
        return False
    if ra[0] != "ok" or not same(ra[1], da):
        return False  # A's completed write is read back as something else: B's staging file got published under A
    if rb[0] != "ok" or not same(rb[1], db):
        return False
    return nfiles == 2


def _two_common(pa, pb, da, db, j, inside):
    fs = ModelFS(eager=EAGER)
    obs = _two_scenario(fs, pa, pb, da, db, j, inside)
    good = _two_verdict(obs, da, db)
    if MIRROR and not is_tracing():
        import tempfile

        with tempfile.TemporaryDirectory() as base:
            robs = _two_scenario(M.RealFS(base, eager=EAGER), pa, pb, da, db, j, inside)
        if obs != robs:
            _mismatch("two writers", obs, robs)
    return good


def c11_two_grid(ia: int, ib: int, da: bytes, db: bytes, inside: bool) -> bool:
    """
    Two stores in one directory whose names come from a fixed grid (pathlib cannot take symbolic names); B's write
    starts just before A's file operation number XH_J.

    pre: 0 <= ia < NGRID and 0 <= ib < NGRID and ia != ib
    pre: len(da) <= 2 and len(db) <= 2
    post: _
    """
    begin()
    pa, pb = _path(NAMES[ia]), _path(NAMES[ib])
    if not _two_common(pa, pb, da, db, J, inside):
        return False
    return ok()


def c11_two_sym(a: str, b: str, da: bytes, db: bytes, inside: bool) -> bool:
    """
    The same with fully symbolic names (str paths only).  Excluded: names that are not a single path component, and
    pairs where one target IS the other's staging name (impossible below length 8).

    pre: 1 <= len(a) <= MAXLEN and 1 <= len(b) <= MAXLEN and a != b
    pre: len(da) <= 2 and len(db) <= 2
    post: _
    """
    begin()
    j = J
    for n in (a, b):
        if "/" in n or "\x00" in n or n == "." or n == "..":
            return True
    if PK != "str":
        return True
    pa, pb = ROOT + "/d/" + a, ROOT + "/d/" + b
    if not _two_common(pa, pb, da, db, j, inside):
        return False
    return ok()


def c11_staging_name(a: str, ia: int) -> bool:
    """
    staged_write_path yields exactly '<path>.STAGING' (same path type as given): hence distinct targets have distinct
    staging paths, and a staging path is never another store's target unless that target itself ends in '.STAGING'.
    XH_PK=str: symbolic name a; XH_PK=path: name NAMES[ia] (pathlib cannot take symbolic names).

    pre: 1 <= len(a) <= 4 and 0 <= ia < len(NAMES)
    post: _
    """
    begin()
    M.use(ModelFS())
    if PK == "str":
        p = ROOT + "/d/" + a
        want = p + ".STAGING"
    else:
        p = _path(NAMES[ia])
        want = pathlib.Path(f"{ROOT}/d/{NAMES[ia]}.STAGING")
    got = None
    try:
        with staged_write_path(p) as sp:
            got = sp
            raise UserError()
    except UserError:
        pass
    if type(got) is not type(p) or got != want:
        return False
    return ok()
