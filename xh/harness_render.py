"""E1 harness for C20, part 'the last rendering reflects the final counts' (SimpleProgressObserver's update thread).

The real methods of uberjob.progress._simple_progress_observer.SimpleProgressObserver -- _run_update_thread, _do_render,
__exit__, increment_total / _running / _completed / _failed -- are executed by CrossHair under a SYMBOLIC SCHEDULE of two
threads, the notifying thread (the run) and the display's update thread, in ONE OS thread:

  * the source of the class is re-read from VERIF_SRC on every import; `_run_update_thread` is turned into a generator by an
    AST transformation that inserts a scheduling point (`yield`) before every statement of the function that is not
    protected by `with self._lock` (statement granularity), and replaces `self._done_event.wait(timeout)` by a scheduling
    point that returns whether the event is set at that moment (a wait with a finite timeout can always return; it
    returns True exactly when the event is set);  everything else -- the code inside `with self._lock:`, `_do_render`,
    `State`, the notification methods, `__exit__` -- is the unmodified real code;
  * the notification methods increment_* get the same treatment (a body that is one `with self._lock:` block stays one atomic
    step; any statement outside the lock becomes its own step of the notifying thread);
  * soundness of the granularity is CHECKED on the source, not assumed: a `with self._lock:` block is atomic with respect to
    every other such block; a statement outside the lock is one step, which is sound when it stores at most one shared
    attribute and reads none -- a statement outside the lock that both reads and writes shared attributes is reported as
    unsupported (exit 3);
  * the schedule (who moves next) and the clock readings are symbolic; Lock / Event / Thread / time.time are small stubs.

Property: when __exit__ has returned, the update thread has terminated and the state passed to the last _output() call
is the final state (every notification made before __exit__ is reflected in the last thing shown).
"""
import ast
import os
import sys
import types

import world as W  # noqa: F401  (sys.path, nxpatch)
from world import begin, ok

SRC = os.environ.get("VERIF_SRC", "/repo/src")
PATH = os.path.join(SRC, "uberjob", "progress", "_simple_progress_observer.py")
NNOTE = int(os.environ.get("XH_NNOTE", "3"))  # notifications before __exit__


class Unsupported(Exception):
    pass


NOTIFY = ("increment_total", "increment_running", "increment_completed", "increment_failed")


# ----------------------------------------------------------------------------- source -> schedulable class
def _is_lock_with(node):
    return (isinstance(node, ast.With) and len(node.items) == 1 and isinstance(node.items[0].context_expr, ast.Attribute)
            and isinstance(node.items[0].context_expr.value, ast.Name) and node.items[0].context_expr.value.id == "self"
            and node.items[0].context_expr.attr == "_lock")


def _self_stores(node):
    out = []
    for n in ast.walk(node):
        if isinstance(n, (ast.Assign, ast.AugAssign, ast.AnnAssign)):
            tg = n.targets if isinstance(n, ast.Assign) else [n.target]
            for t in tg:
                for x in ast.walk(t):
                    if isinstance(x, ast.Attribute) and isinstance(x.value, ast.Name) and x.value.id == "self" and isinstance(x.ctx, ast.Store):
                        out.append(x.attr)
    return out


def _self_loads(node):
    return [x.attr for x in ast.walk(node) if isinstance(x, ast.Attribute) and isinstance(x.value, ast.Name) and x.value.id == "self"
            and isinstance(x.ctx, ast.Load)]


class _WaitRewriter(ast.NodeTransformer):
    """self._done_event.wait(<timeout>)  ->  (yield ('wait', <lineno>))"""

    def __init__(self):
        self.count = 0

    def visit_Call(self, node):
        self.generic_visit(node)
        f = node.func
        if (isinstance(f, ast.Attribute) and f.attr == "wait" and isinstance(f.value, ast.Attribute) and f.value.attr == "_done_event"):
            self.count += 1
            return ast.copy_location(ast.Yield(value=ast.Tuple(elts=[ast.Constant("wait"), ast.Constant(node.lineno)], ctx=ast.Load())), node)
        return node


def _instrument(stmts, shared, notes, top=False):
    """Insert `yield ('stmt', lineno)` before every statement outside the lock; recurse into compound statements.
    top=True: no scheduling point before the function's first statement (nothing has been touched yet: a point before the
    call itself is equivalent)."""
    out = []
    for k, s in enumerate(stmts):
        if top and k == 0 and (_is_lock_with(s) or not isinstance(s, (ast.While, ast.If, ast.For, ast.Try, ast.With))):
            if not _is_lock_with(s):
                st = set(_self_stores(s)) & shared
                ld = set(_self_loads(s)) & shared
                if st and (len(st) > 1 or (ld - st) or isinstance(s, ast.AugAssign)):
                    raise Unsupported(f"line {s.lineno}: unprotected statement reads and writes shared attributes {sorted(st | ld)}")
                if st:
                    notes.append(f"line {s.lineno}: unprotected store to {sorted(st)} (first statement)")
            out.append(s)
            continue
        if _is_lock_with(s):
            out.append(ast.copy_location(ast.Expr(ast.Yield(value=ast.Tuple(elts=[ast.Constant("lock"), ast.Constant(s.lineno)], ctx=ast.Load()))), s))
            out.append(s)  # atomic: every other access to the shared attributes holds the same lock (checked below)
            continue
        if isinstance(s, (ast.While, ast.If, ast.For, ast.Try, ast.With)):
            if isinstance(s, (ast.While, ast.If)):
                if set(_self_loads(s.test)) & shared and _self_stores(s.test):
                    raise Unsupported(f"line {s.lineno}: test reads and writes shared state")
            for fld in ("body", "orelse", "finalbody"):
                if getattr(s, fld, None):
                    setattr(s, fld, _instrument(getattr(s, fld), shared, notes))
            if isinstance(s, ast.Try):
                for h in s.handlers:
                    h.body = _instrument(h.body, shared, notes)
            out.append(ast.copy_location(ast.Expr(ast.Yield(value=ast.Tuple(elts=[ast.Constant("stmt"), ast.Constant(s.lineno)], ctx=ast.Load()))), s))
            out.append(s)
            continue
        st = set(_self_stores(s)) & shared
        ld = set(_self_loads(s)) & shared
        if st and (len(st) > 1 or (ld - st) or isinstance(s, ast.AugAssign)):
            raise Unsupported(f"line {s.lineno}: unprotected statement reads and writes shared attributes {sorted(st | ld)}")
        if st:
            notes.append(f"line {s.lineno}: unprotected store to {sorted(st)} gets its own scheduling point")
        out.append(ast.copy_location(ast.Expr(ast.Yield(value=ast.Tuple(elts=[ast.Constant("stmt"), ast.Constant(s.lineno)], ctx=ast.Load()))), s))
        out.append(s)
    return out


def build_class():
    src = open(PATH).read()
    tree = ast.parse(src)
    cls = next(n for n in tree.body if isinstance(n, ast.ClassDef) and n.name == "SimpleProgressObserver")
    methods = {n.name: n for n in cls.body if isinstance(n, ast.FunctionDef)}
    for need in ("_run_update_thread", "_do_render", "__exit__", "__enter__", "increment_total", "increment_running", "increment_completed", "increment_failed"):
        if need not in methods:
            raise Unsupported(f"method {need} not found")
    notes = []
    # shared attributes: assigned somewhere outside __init__
    shared = set()
    for name, m in methods.items():
        if name != "__init__":
            shared.update(_self_stores(m))
    shared.update({"_state", "_exception_tuples"})
    shared -= {"_thread"}
    # (1) notification methods: turned into generators as well (a method whose body is one `with self._lock:` block stays one
    #     atomic step; anything outside the lock gets its own scheduling point)
    for name in NOTIFY:
        m = methods[name]
        body = [s for s in m.body if not (isinstance(s, ast.Expr) and isinstance(s.value, ast.Constant))]
        m.body = _instrument(body, shared, notes, top=True)
        if not any(isinstance(x, ast.Yield) for x in ast.walk(m)):
            m.body.append(ast.Expr(ast.Yield(value=ast.Constant("end"))))  # make it a generator in every case
    # (2) _do_render is only called with the lock held
    for name, m in methods.items():
        for n in ast.walk(m):
            if isinstance(n, ast.Call) and isinstance(n.func, ast.Attribute) and n.func.attr == "_do_render":
                inside = any(_is_lock_with(w) and any(x is n for x in ast.walk(w)) for w in ast.walk(m))
                if not inside:
                    raise Unsupported(f"{name}: _do_render called without the lock (line {n.lineno})")
    # (3) __exit__: set the event, then join -- sequential statements, each a step
    upd = methods["_run_update_thread"]
    wr = _WaitRewriter()
    wr.visit(upd)
    if wr.count != 1:
        raise Unsupported(f"_run_update_thread: expected exactly one _done_event.wait(), found {wr.count}")
    upd.body = _instrument(upd.body, shared, notes, top=True)
    ast.fix_missing_locations(tree)
    mod = types.ModuleType("spo_sched")
    mod.__dict__["__name__"] = "uberjob.progress._simple_progress_observer_sched"
    import uberjob.progress._simple_progress_observer as real

    code = compile(tree, PATH + "<sched>", "exec")
    ns = mod.__dict__
    ns["__builtins__"] = __builtins__
    exec(code, ns)
    return ns, notes, real


NS, NOTES, REAL = build_class()


# ----------------------------------------------------------------------------- stubs
class Clock:
    def __init__(self, readings):
        self.readings, self.i, self.last = readings, 0, 0

    def time(self):
        if self.i < len(self.readings):
            self.last = self.readings[self.i]
            self.i += 1
        return self.last


class Lock:
    def __init__(self):
        self.held = False

    def __enter__(self):
        if self.held:
            raise AssertionError("lock acquired while held: the granularity argument is broken")
        self.held = True

    def __exit__(self, *a):
        self.held = False
        return False


class Event:
    def __init__(self):
        self.flag = False

    def set(self):
        self.flag = True

    def is_set(self):
        return self.flag

    def wait(self, timeout=None):
        raise AssertionError("Event.wait reached outside the transformed update thread")


class ThreadStub:
    def __init__(self, drive):
        self.drive = drive

    def join(self):
        self.drive()


def mk_observer(clock):
    NS["time"] = clock  # the module-level `time` of the schedulable copy
    Base = NS["SimpleProgressObserver"]

    class Obs(Base):
        def __init__(self):
            super().__init__(initial_update_delay=1, min_update_interval=1, max_update_interval=5)
            self._lock = Lock()
            self._done_event = Event()
            self.emitted = []

        def snapshot(self):
            return tuple(sorted((sec, sc, st.completed, st.failed, st.running, st.total)
                                for sec, d in self._state.section_scope_mapping.items() for sc, st in d.items()))

        def _render(self, state, new_exception_index, exception_tuples, elapsed):
            return ("render", self.snapshot())

        def _output(self, value):
            self.emitted.append(value)

    return Obs()


def c20_final_render(s0: bool, s1: bool, s2: bool, s3: bool, s4: bool, s5: bool, s6: bool, s7: bool, s8: bool, s9: bool, s10: bool, s11: bool,
                     s12: bool, s13: bool, c0: int, c1: int, c2: int, c3: int, c4: int, c5: int, c6: int, c7: int) -> bool:
    """
    pre: 0 <= c0 <= c1 <= c2 <= c3 <= c4 <= c5 <= c6 <= c7
    post: _
    """
    begin()
    clock = Clock([0, c0, c1, c2, c3, c4, c5, c6, c7])
    obs = mk_observer(clock)
    gen = obs._run_update_thread()
    sched = [s0, s1, s2, s3, s4, s5, s6, s7, s8, s9, s10, s11, s12, s13]
    state = {"pending": None, "done": False, "steps": 0}

    def upd_step():
        """One step of the update thread: run to its next scheduling point."""
        if state["done"]:
            return
        try:
            if state["pending"] is None:
                p = next(gen)
            elif state["pending"][0] == "wait":
                p = gen.send(obs._done_event.is_set())
            else:
                p = gen.send(None)
            state["pending"] = p
        except StopIteration:
            state["done"] = True
        state["steps"] += 1
        if state["steps"] > 200:
            raise AssertionError("update thread does not terminate")

    def drive_to_end():
        while not state["done"]:
            upd_step()

    obs._thread = ThreadStub(drive_to_end)
    notes = [("total", 2), ("running", 0), ("completed", 0), ("running", 0), ("failed", 0)][:NNOTE]
    scope = ("s",)
    cur = {"gen": None, "i": 0}

    def start(kind, amount):
        if kind == "total":
            return obs.increment_total(section="run", scope=scope, amount=amount)
        if kind == "running":
            return obs.increment_running(section="run", scope=scope)
        if kind == "completed":
            return obs.increment_completed(section="run", scope=scope)
        return obs.increment_failed(section="run", scope=scope, exception=ValueError("x"))

    def note_step():
        """One step of the notifying thread: run the current notification to its next scheduling point."""
        if cur["gen"] is None:
            cur["gen"] = start(*notes[cur["i"]])
        try:
            while True:
                p = next(cur["gen"])
                if p != "end":
                    return
        except StopIteration:
            cur["gen"] = None
            cur["i"] += 1

    k = 0
    while cur["i"] < len(notes):
        move_updater = sched[k] if k < len(sched) else False
        k += 1
        if move_updater and not state["done"]:
            upd_step()
            continue
        note_step()
    # a few more updater steps may interleave before __exit__
    while k < len(sched) and sched[k]:
        k += 1
        upd_step()
    if state["done"]:
        return False  # the update thread must not end before the event is set
    final = obs.snapshot()
    obs.__exit__(None, None, None)
    if not state["done"]:
        return False
    if not obs.emitted:
        return False
    if obs.emitted[-1] != ("render", final):
        return False
    return ok()


# ============================================================================= C20: the elapsed time attributed to scopes adds up
KMAX = int(os.environ.get("XH_KMAX", "4"))  # events per history (after the totals were announced)
NSCOPE = int(os.environ.get("XH_NSCOPE", "2"))
TOTAL = int(os.environ.get("XH_TOTAL", "2"))  # calls per scope


def legal_histories(kmax, nscope, total):
    """Every C15-legal notification history of at most kmax events over nscope scopes with `total` calls each:
    event = (kind, scope) with kind r(unning) / c(ompleted) / f(ailed)."""
    out = []

    def rec(h, running, finished):
        out.append(list(h))
        if len(h) == kmax:
            return
        for s in range(nscope):
            if running[s] + finished[s] < total:
                running[s] += 1
                h.append(("r", s))
                rec(h, running, finished)
                h.pop()
                running[s] -= 1
            if running[s] > 0:
                for kind in "cf":
                    running[s] -= 1
                    finished[s] += 1
                    h.append((kind, s))
                    rec(h, running, finished)
                    h.pop()
                    finished[s] -= 1
                    running[s] += 1

    rec([], [0] * nscope, [0] * nscope)
    return out


HISTORIES = None


class SymClock:
    def __init__(self):
        self.now = 0.0

    def time(self):
        return self.now


def c20_time_sum(d0: float, d1: float, d2: float, d3: float, d4: float, d5: float) -> bool:
    """
    For EVERY legal notification history (enumerated: the counts are what makes the arithmetic linear) with symbolic
    non-negative real gaps between its events, followed by a render: the weighted_elapsed of all scopes adds up to the
    time during which at least one call was running.  Floats are CrossHair reals (stated).

    pre: d0 >= 0 and d1 >= 0 and d2 >= 0 and d3 >= 0 and d4 >= 0 and d5 >= 0
    pre: d0 <= 1000000 and d1 <= 1000000 and d2 <= 1000000 and d3 <= 1000000 and d4 <= 1000000 and d5 <= 1000000
    post: _
    """
    global HISTORIES
    begin()
    if HISTORIES is None:
        HISTORIES = legal_histories(KMAX, NSCOPE, TOTAL)
    gaps = [d0, d1, d2, d3, d4, d5]
    State = NS["State"]
    for h in HISTORIES:
        clock = SymClock()
        NS["time"] = clock
        st = State(clock.time())
        for s in range(NSCOPE):
            st.increment_total("run", ("s", s), TOTAL)
        busy = 0.0
        rc = 0
        for i, (kind, s) in enumerate(h):
            clock.now = clock.now + gaps[i]
            if rc > 0:
                busy = busy + gaps[i]
            if kind == "r":
                st.increment_running("run", ("s", s))
                rc += 1
            elif kind == "c":
                st.increment_completed("run", ("s", s))
                rc -= 1
            else:
                st.increment_failed("run", ("s", s))
                rc -= 1
        clock.now = clock.now + gaps[len(h)]
        if rc > 0:
            busy = busy + gaps[len(h)]
        st.update_weighted_elapsed()  # what _do_render does before rendering
        total_we = 0.0
        for s in range(NSCOPE):
            total_we = total_we + st.section_scope_mapping["run"][("s", s)].weighted_elapsed
        if not (total_we == busy):
            return False
        if st.running_count != rc:
            return False
    return ok()
