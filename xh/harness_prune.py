"""E1 lemma for C01 / C04 (plan -> engine graph): pruning keeps exactly the needed calls and every dependency between them,
including dependencies routed through literal nodes.

The real Plan API builds a plan from symbolic structure bits, the real uberjob.run(dry_run=True) (-> prune_plan ->
_prune_literal_if_trivial) and prep_run_physical (-> prune_source_literals) produce the graph the engine is given, and the
real run executes it on the sequential stand-in.  Checked against the harness' own transitive closure of the LOGICAL plan:

  (C04)  the call nodes the engine gets are exactly the calls the requested output transitively depends on; the real run
         executes each of them exactly once and nothing else;
  (C01)  for needed calls a, b:  a ~> b in the logical plan (through any mix of argument / keyword / add_dependency edges
         and literal nodes)  =>  a ~> b in the engine's graph  -- so, by the engine contract, a has finished before b starts
         in every schedule; and the real run's order respects it;
  (C02)  every executed call received the values of its argument predecessors in order (term structure of the result).

Concrete case split (environment): XH_PKINDS, one letter per node in creation order, c = call, l = literal; XH_PFIX /
XH_PNO = edges forced present / absent ("01,12"); XH_PAK = all | lit (which edges have a symbolic argument-vs-dependency
kind); XH_POUT = last | none | all | <index>.  Symbolic: presence of every other edge i<j, and for
every edge from a literal or call INTO a call whether it is an argument edge or a plain add_dependency edge (edges into a
literal are always add_dependency edges; the Plan API offers nothing else).
"""
import os

import world as W
from world import begin, ok

W.install_engine()
import uberjob  # noqa: E402
from uberjob._execution.run_physical import prep_run_physical  # noqa: E402
from uberjob.graph import Call, Literal  # noqa: E402

KINDS = os.environ.get("XH_PKINDS", "clcc")
N = len(KINDS)
FIX = {(int(e[0]), int(e[1])) for e in os.environ.get("XH_PFIX", "").split(",") if e}
NO = {(int(e[0]), int(e[1])) for e in os.environ.get("XH_PNO", "").split(",") if e}  # edges forced absent
REV = os.environ.get("XH_PREV", "0") == "1"  # declare the add_dependency edges in reverse order (a dependency of a literal declared AFTER the literal's own dependents)
AK = os.environ.get("XH_PAK", "all")  # all: argument-vs-dependency symbolic for every edge into a call | lit: only for edges FROM a literal (call -> call: argument)
OUT = os.environ.get("XH_POUT", "last")
PAIRS = [(i, j) for j in range(N) for i in range(j)]
assert N <= 5


class St:
    log = []


def mk_fn(j):
    def f(*a, **kw):
        St.log.append(j)
        return (j,) + a + tuple(sorted(kw.items()))

    f.__name__ = f.__qualname__ = f"f{j}"
    return f


def _closure(n, edges):
    r = [[False] * n for _ in range(n)]
    for (i, j) in edges:
        r[i][j] = True
    for k in range(n):
        for i in range(n):
            if r[i][k]:
                for j in range(n):
                    if r[k][j]:
                        r[i][j] = True
    return r


def _reach(g, a, b_):
    seen, todo = set(), [a]
    while todo:
        x = todo.pop()
        for s in g.successors(x):
            if s is b_:
                return True
            if s not in seen:
                seen.add(s)
                todo.append(s)
    return False


def c01_prune(e0: bool, e1: bool, e2: bool, e3: bool, e4: bool, e5: bool, e6: bool, e7: bool, e8: bool, e9: bool,
              a0: bool, a1: bool, a2: bool, a3: bool, a4: bool, a5: bool, a6: bool, a7: bool, a8: bool, a9: bool) -> bool:
    """
    post: _
    """
    begin()
    ebits = [e0, e1, e2, e3, e4, e5, e6, e7, e8, e9]
    abits = [a0, a1, a2, a3, a4, a5, a6, a7, a8, a9]
    edges = {}  # (i, j) -> 'a' | 'd'
    for idx, (i, j) in enumerate(PAIRS):
        if (i, j) in NO:
            if ebits[idx] or abits[idx]:
                return True
            continue
        present = True if (i, j) in FIX else ebits[idx]
        if (i, j) in FIX and ebits[idx]:
            return True  # unused dimension pinned
        if not present:
            if abits[idx]:
                return True  # unused dimension pinned
            continue
        if KINDS[j] == "l":
            if abits[idx]:
                return True
            edges[(i, j)] = "d"
        elif AK == "lit" and KINDS[i] == "c":
            if abits[idx]:
                return True
            edges[(i, j)] = "a"
        else:
            edges[(i, j)] = "a" if abits[idx] else "d"
    for idx in range(len(PAIRS), 10):
        if ebits[idx] or abits[idx]:
            return True
    # ---- build through the public API
    St.log = []
    plan = uberjob.Plan()
    nodes = []
    for j in range(N):
        if KINDS[j] == "l":
            nodes.append(plan.lit(("lit", j)))
        else:
            args = [nodes[i] for i in range(j) if edges.get((i, j)) == "a"]
            pos, kw = args[:1] + args[2:], {}
            if len(args) >= 2:
                kw = {"k": args[1]}  # one keyword edge when there are two or more argument edges
            nodes.append(plan.call(mk_fn(j), *pos, **kw))
    deps = [(i, j) for (i, j), k in edges.items() if k == "d"]
    for (i, j) in (reversed(deps) if REV else deps):
        plan.add_dependency(nodes[i], nodes[j])
    calls = [j for j in range(N) if KINDS[j] == "c"]
    if OUT == "none":
        out, outs = None, []
    elif OUT == "all":
        out, outs = [nodes[j] for j in calls], list(calls)
    elif OUT == "last":
        out, outs = nodes[N - 1], [N - 1]
    else:
        out, outs = nodes[int(OUT)], [int(OUT)]
    R = _closure(N, edges)
    needed = sorted(j for j in calls if j in outs or any(R[j][o] for o in outs))
    # ---- the graph the engine is given
    phys, onode = uberjob.run(plan, output=out, dry_run=True, progress=None)
    prep = prep_run_physical(phys, inplace=False, output_node=onode)
    g = prep.plan.graph
    surviving = sorted(j for j in calls if nodes[j] in g)
    if surviving != needed:
        return False
    for a in needed:
        for b_ in needed:
            if a != b_ and R[a][b_] and not _reach(g, nodes[a], nodes[b_]):
                return False
    if St.log:
        return False  # a dry run executes nothing
    # ---- the real run
    res = uberjob.run(plan, output=out, progress=None, max_workers=1)
    if sorted(St.log) != needed:
        return False
    pos_of = {j: i for i, j in enumerate(St.log)}
    for a in needed:
        for b_ in needed:
            if a != b_ and R[a][b_] and not pos_of[a] < pos_of[b_]:
                return False

    def val(j):
        if KINDS[j] == "l":
            return ("lit", j)
        args = [val(i) for i in range(j) if edges.get((i, j)) == "a"]
        pos, kw = args[:1] + args[2:], {}
        if len(args) >= 2:
            kw = {"k": args[1]}
        return (j,) + tuple(pos) + tuple(sorted(kw.items()))

    want = None if OUT == "none" else ([val(j) for j in calls] if OUT == "all" else val(outs[0]))
    if res != want:
        return False
    return ok()
