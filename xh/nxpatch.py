"""Run networkx natively (untraced) under CrossHair.

CrossHair 0.0.110 deviates from CPython for `unhashable in dict` (no TypeError under tracing); networkx'
add_nodes_from relies on it, so MultiDiGraph.copy() silently corrupts the copy under tracing.  networkx only
ever sees concrete node objects / edge keys in these harnesses, so running it untraced loses nothing.
"""
import functools
import types

import networkx as nx

try:
    from crosshair.tracers import NoTracing, is_tracing
except Exception:  # crosshair not importable: plain concrete run
    NoTracing = None

    def is_tracing():
        return False


def untraced(fn):
    if NoTracing is None:
        return fn

    @functools.wraps(fn)
    def w(*a, **k):
        if is_tracing():
            with NoTracing():
                return fn(*a, **k)
        return fn(*a, **k)

    return w


_done = False


def install():
    global _done
    if _done or NoTracing is None:
        return
    _done = True
    for cls in (nx.Graph, nx.DiGraph, nx.MultiGraph, nx.MultiDiGraph):
        for name, val in list(vars(cls).items()):
            if isinstance(val, types.FunctionType) and name not in ("__init__",):
                setattr(cls, name, untraced(val))
