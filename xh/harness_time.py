"""E1 harness for C18 (staleness depends only on instants, not on time zone or naive/aware form).

The real uberjob.run(dry_run=True) -> plan_with_value_stores -> _get_stale_nodes / _to_naive_utc_time, and the real
uberjob.stores._file_store.get_modified_time, run on datetimes that are GENERATED FROM INSTANTS:

  * every store and fresh_time gets a true instant u (symbolic int seconds), pairwise distinct;
  * the process zone is symbolic: local(u) = u + L0 for u < X, u + L1 from X on (one transition; L0 = L1: fixed offset;
    L1 > L0: spring forward; L1 < L0: fall back with a repeated interval);
  * a representation kind per value (the concrete case split XH_KINDS):
        f  bundled file store: the REAL get_modified_time(path) with os.path.getmtime -> u and
           datetime.fromtimestamp -> the model's naive-local value (wall = local(u), fold as CPython sets it)
        n  naive-local datetime (what datetime.now() / a file store's time gives), used for fresh_time
        a  timezone-aware datetime with a symbolic UTC offset
        -  no fresh_time
  * the oracle is the declarative out-of-date set (world.stale_oracle) evaluated ON THE INSTANTS.

MDT is the datetime model (stub, part of the claim): a dt.datetime subclass (so run()'s isinstance check is executed
unchanged) that carries wall seconds, an optional offset and fold, compares exactly as CPython does (naive/naive by wall
clock ignoring fold, aware/aware by instant, ordering of mixed kinds raises TypeError), and converts with astimezone()
as CPython does: aware -> instant; naive -> interpreted in the process zone, for a value born from an instant this
returns that instant (CPython's fold-aware round trip), for any other naive value a port of datetime._mktime over the
symbolic zone.  When a harness function is called concretely (replay / witness / sweep) the same scenario is ALSO run
with REAL datetime objects, a real TZ (POSIX TZ string built from L0, L1, X + time.tzset()), real files with os.utime
mtimes and real TouchFileStore objects, and the two stale sets must agree -- otherwise exit code 12 (model does not
reproduce: harness error, never a violation).
"""
import datetime as dt
import os
import sys

import world as W
from world import begin, ok

W.install_engine()
import uberjob  # noqa: E402
import uberjob.stores._file_store as FS  # noqa: E402
from uberjob.graph import Call, Literal  # noqa: E402
from uberjob.stores import TouchFileStore  # noqa: E402

import nxpatch  # noqa: E402

KINDS = os.environ.get("XH_KINDS", "ff-")  # one letter per store, last letter: fresh_time
ZONE = os.environ.get("XH_ZONE", "utc")  # utc | fixed | fwd | back
SHAPE = os.environ.get("XH_TSHAPE", "chain2")  # chain2: s0 -> s1 ; chain3u: s0 -> (unstored) -> s2 ; join: s0, s1 -> s2
ANCHOR = 1623758400  # 2021-06-15 12:00:00 UTC (not a leap year; far from both year ends): the instant of the zone transition
MAXOFF = 50400  # +-14 h
MAXJUMP = 10800  # |L0 - L1| <= 3 h (CPython's fold detection itself assumes jumps below 24 h)
SPAN = 1000000  # all instants within +-SPAN seconds of the transition (about 11 days)


class Zone:
    L0 = 0
    L1 = 0
    X = 0


Z = Zone()


def loff(u):
    return Z.L0 if u < Z.X else Z.L1


def local(u):
    return u + loff(u)


def fold_of(u):
    """fold CPython's fromtimestamp gives the local time of instant u: 1 iff that wall time occurs twice and u is the later."""
    return 1 if (Z.L1 < Z.L0 and Z.X <= u and u < Z.X + (Z.L0 - Z.L1)) else 0


def mktime_model(t, fold):
    """Port of CPython's datetime._mktime (naive local wall seconds t, fold) -> instant, over the model zone."""
    max_fold = 24 * 3600
    a = local(t) - t
    u1 = t - a
    t1 = local(u1)
    if t1 == t:
        u2 = u1 + (max_fold if fold else -max_fold)
        b = local(u2) - u2
        if a == b:
            return u1
    else:
        b = t1 - u1
    u2 = t - b
    t2 = local(u2)
    if t2 == t:
        return u2
    if t1 == t:
        return u1
    return min(u1, u2) if fold else max(u1, u2)


class _TZ:
    """What MDT.tzinfo returns for an aware value (uberjob only tests its truthiness)."""

    def __init__(self, off):
        self.off = off

    def utcoffset(self, _d=None):
        return dt.timedelta(seconds=self.off)

    def __bool__(self):
        return True


class _ZoneTZ:
    """The ONE tzinfo object of the process zone (a DST-observing zone such as ZoneInfo('America/New_York')): what makes two
    datetimes 'same tzinfo'."""

    def __bool__(self):
        return True


ZTZ = _ZoneTZ()


def _tz_off(tz):
    if isinstance(tz, _TZ):
        return tz.off
    return int(tz.utcoffset(None).total_seconds())


class MDT(dt.datetime):
    """Model datetime.  off is None: naive (wall, fold; born: the instant it was generated from, or None)."""

    def __new__(cls, wall, off, fold=0, born=None, zone=False):
        o = dt.datetime.__new__(cls, 2000, 1, 1)
        o.wall, o.off, o._fold, o.born, o.zone = wall, off, fold, born, zone
        return o

    @property
    def tzinfo(self):
        if self.off is None:
            return None
        return ZTZ if self.zone else _TZ(self.off)

    @property
    def fold(self):
        return self._fold

    def instant(self):
        """The instant this value denotes (naive = local time, fold-aware), as CPython's astimezone computes it."""
        if self.off is not None and not self.zone:
            return self.wall - self.off
        if self.born is not None:
            return self.born
        if self.zone:
            return mktime_model(self.wall, self._fold)
        return mktime_model(self.wall, self._fold)

    def astimezone(self, tz=None):
        u = self.instant()
        if tz is None:
            return MDT(local(u), loff(u))
        o = _tz_off(tz)
        return MDT(u + o, o)

    def replace(self, *a, **kw):
        if a or set(kw) - {"tzinfo", "fold"}:
            raise NotImplementedError("MDT.replace: only tzinfo= / fold= are modelled")
        off, born = self.off, self.born
        fold = kw.get("fold", self._fold)
        zone = self.zone
        if "tzinfo" in kw:
            if kw["tzinfo"] is ZTZ:
                raise NotImplementedError("MDT.replace(tzinfo=<the process zone object>) is not modelled")
            off = None if kw["tzinfo"] is None else _tz_off(kw["tzinfo"])
            born = None  # the wall clock now stands on its own
            zone = False
        if "fold" in kw and fold != self._fold:
            born = None
        return MDT(self.wall, off, fold, born, zone)

    def utcoffset(self):
        return None if self.off is None else dt.timedelta(seconds=self.off)

    def timestamp(self):
        return self.instant()

    def _key(self, o, ordering):
        if not isinstance(o, MDT):
            raise TypeError("MDT compared with a foreign object")
        if (self.off is None) != (o.off is None):
            if ordering:
                raise TypeError("can't compare offset-naive and offset-aware datetimes")
            return None
        if self.off is None:
            return self.wall, o.wall
        if self.zone and o.zone:
            # CPython: two aware datetimes with the SAME tzinfo object are compared by their naive fields -- offsets and fold are
            # not consulted (so inside a repeated hour the order / equality is that of the wall clock)
            return self.wall, o.wall
        return self.wall - self.off, o.wall - o.off

    def __lt__(self, o):
        a, b = self._key(o, True)
        return a < b

    def __gt__(self, o):
        a, b = self._key(o, True)
        return a > b

    def __le__(self, o):
        a, b = self._key(o, True)
        return a <= b

    def __ge__(self, o):
        a, b = self._key(o, True)
        return a >= b

    def __eq__(self, o):
        if not isinstance(o, MDT):
            return False
        k = self._key(o, False)
        return k is not None and k[0] == k[1]

    def __ne__(self, o):
        return not self.__eq__(o)

    def __hash__(self):
        return 0

    def __repr__(self):
        return f"MDT(wall={self.wall}, off={self.off}, fold={self._fold})"


class TD:
    """Model timedelta (whole seconds, symbolic): what a store implementation may add to / subtract from a datetime."""

    def __init__(self, days=0, seconds=0, microseconds=0, milliseconds=0, minutes=0, hours=0, weeks=0):
        self.s = days * 86400 + seconds + microseconds // 1000000 + milliseconds // 1000 + minutes * 60 + hours * 3600 + weeks * 604800

    def total_seconds(self):
        return self.s

    def __neg__(self):
        return TD(seconds=-self.s)

    def __add__(self, o):
        if isinstance(o, TD):
            return TD(seconds=self.s + o.s)
        if isinstance(o, MDT):
            return o.__add__(self)
        return NotImplemented

    __radd__ = __add__


def _secs(td):
    if isinstance(td, TD):
        return td.s
    if isinstance(td, dt.timedelta):
        return td.days * 86400 + td.seconds
    return None


def _mdt_add(self, td):
    s_ = _secs(td)
    if s_ is None:
        return NotImplemented
    # datetime arithmetic is wall-clock arithmetic: tzinfo is kept, fold is reset, the value no longer "comes from" an instant
    return MDT(self.wall + s_, self.off, 0, None, self.zone)


def _mdt_sub(self, o):
    if isinstance(o, MDT):
        a, b_ = self._key(o, True)
        return TD(seconds=a - b_)
    s_ = _secs(o)
    if s_ is None:
        return NotImplemented
    return MDT(self.wall - s_, self.off, 0, None, self.zone)


MDT.__add__ = _mdt_add
MDT.__radd__ = _mdt_add
MDT.__sub__ = _mdt_sub


def naive_local(u):
    return MDT(local(u), None, fold_of(u), born=u)


def aware(u, off):
    return MDT(u + off, off)


def zone_aware(u):
    """timezone-aware in the process zone itself, every such value carrying the same tzinfo object"""
    return MDT(local(u), loff(u), fold_of(u), born=u, zone=True)


# ----------------------------------------------------------------------------- the file-store side (model of os / datetime)
MTIMES = {}


class _PathStub:
    @staticmethod
    def exists(path):
        return os.fspath(path) in MTIMES

    @staticmethod
    def getmtime(path):
        p = os.fspath(path)
        if p not in MTIMES:
            raise FileNotFoundError(p)
        return MTIMES[p]


class _StatResult:
    def __init__(self, t):
        self.st_mtime = t
        self.st_mtime_ns = t * 1000000000
        self.st_size = 0


class _OsStub:
    path = _PathStub()

    @staticmethod
    def stat(path, *a, **k):
        return _StatResult(_PathStub.getmtime(path))

    @staticmethod
    def fspath(path):
        return os.fspath(path)

    @staticmethod
    def remove(path):
        raise OSError("not modelled")

    @staticmethod
    def replace(a, b):
        raise OSError("not modelled")


class _DatetimeStub:
    @staticmethod
    def fromtimestamp(t, tz=None):
        if tz is None:
            return naive_local(t)
        return aware(t, _tz_off(tz))

    @staticmethod
    def utcfromtimestamp(t):
        return MDT(t, None, 0, None)


class _DtStub:
    datetime = _DatetimeStub
    timezone = dt.timezone
    timedelta = TD


_REAL = (FS.os, FS.dt)


def install_fs_model(on):
    FS.os, FS.dt = (_OsStub, _DtStub) if on else _REAL


class AwareStore(uberjob.ValueStore):
    def __init__(self, name, mk):
        self.name, self.mk = name, mk

    def read(self):
        return self.name

    def write(self, v):
        raise AssertionError("dry run must not write")

    def get_modified_time(self):
        return self.mk()


# ----------------------------------------------------------------------------- shapes
def tshape():
    A = "a"
    if SHAPE == "chain2":
        return W.Shape("t_chain2", 2, [(0, 1, A)], ["store", "store"], None)
    if SHAPE == "chain3u":
        return W.Shape("t_chain3u", 3, [(0, 1, A), (1, 2, A)], ["store", "call", "store"], None)
    if SHAPE == "join":
        return W.Shape("t_join", 3, [(0, 2, A), (1, 2, A)], ["store", "store", "store"], None)
    if SHAPE == "src_chain":
        return W.Shape("t_src_chain", 3, [(0, 1, A), (1, 2, A)], ["src", "store", "store"], None)
    raise KeyError(SHAPE)


SH = tshape()
STORED = [j for j in range(SH.n) if SH.registered[j]]
assert len(KINDS) == len(STORED) + 1, (KINDS, STORED)


def _f(*a):
    return 0


def scenario(us, offs, hf_kind, uf, of, mk_store, mk_fresh):
    """Build plan + registry through the public API and ask the real code which stored values are out of date."""
    plan, reg = uberjob.Plan(), uberjob.Registry()
    nodes, stores = [], {}
    for j in range(SH.n):
        args = [nodes[i] for i, k in SH.preds[j] if k == "a"]
        if SH.roles[j] == "src":
            st = mk_store(j)
            node = reg.source(plan, st)
        else:
            node = plan.call(_f, *args)
            st = None
            if SH.roles[j] == "store":
                st = mk_store(j)
                reg.add(node, st)
        nodes.append(node)
        stores[j] = st
    ft = mk_fresh()
    phys, _o = uberjob.run(plan, registry=reg, dry_run=True, fresh_time=ft, progress=None, max_workers=1)
    stale = set()
    g = phys.graph
    for node in g.nodes():
        if type(node) is Call and getattr(node.fn, "__name__", "") == "write":
            for pred in g.predecessors(node):
                if type(pred) is Literal:
                    for j in STORED:
                        if stores[j] is pred.value:
                            stale.add(j)
    return stale


def _zone_ok(L0, L1, X):
    if not (-MAXOFF <= L0 <= MAXOFF and -MAXOFF <= L1 <= MAXOFF):
        return False
    if ZONE == "utc":
        return L0 == 0 and L1 == 0
    if ZONE == "fixed":
        return L0 == L1
    if ZONE == "fwd":
        return L0 < L1 <= L0 + MAXJUMP
    if ZONE == "back":
        return L1 < L0 <= L1 + MAXJUMP
    raise KeyError(ZONE)


def c18_stale(u0: int, o0: int, u1: int, o1: int, u2: int, o2: int, uf: int, of: int, L0: int, L1: int, X: int) -> bool:
    """
    pre: u0 != u1 and u0 != u2 and u1 != u2 and uf != u0 and uf != u1 and uf != u2
    pre: -50400 <= o0 <= 50400 and -50400 <= o1 <= 50400 and -50400 <= o2 <= 50400 and -50400 <= of <= 50400
    pre: -50400 <= L0 <= 50400 and -50400 <= L1 <= 50400
    pre: X - 1000000 < u0 < X + 1000000 and X - 1000000 < u1 < X + 1000000 and X - 1000000 < u2 < X + 1000000 and X - 1000000 < uf < X + 1000000
    post: _
    """
    begin()
    if not _zone_ok(L0, L1, X):
        return True
    if X != ANCHOR:
        return True  # instants are absolute (code may refer to the epoch): the transition sits at a fixed real instant, the mirror uses the same numbers
    Z.L0, Z.L1, Z.X = L0, L1, X
    us, offs = [u0, u1, u2], [o0, o1, o2]
    kind_of = {j: KINDS[i] for i, j in enumerate(STORED)}
    u_of = {j: us[i] for i, j in enumerate(STORED)}
    off_of = {j: offs[i] for i, j in enumerate(STORED)}
    fk = KINDS[-1]
    # oracle on the instants
    P = [True] * SH.n
    TT = [u_of.get(j, 0) for j in range(SH.n)]
    S = W.stale_oracle(SH, P, TT, fk != "-", uf)
    want = {j for j in STORED if S[j] and SH.roles[j] == "store"}

    MTIMES.clear()

    def mk_store(j):
        if kind_of[j] == "f":
            path = f"/model/s{j}"
            MTIMES[path] = u_of[j]
            return TouchFileStore(path)
        if kind_of[j] == "z":
            return AwareStore(j, lambda j=j: zone_aware(u_of[j]))
        return AwareStore(j, lambda j=j: aware(u_of[j], off_of[j]))

    def mk_fresh():
        if fk == "-":
            return None
        if fk == "z":
            return zone_aware(uf)
        return naive_local(uf) if fk == "n" else aware(uf, of)

    install_fs_model(True)
    try:
        got = scenario(us, offs, fk, uf, of, mk_store, mk_fresh)
    except uberjob.CallError:
        got = "error"
    finally:
        install_fs_model(False)
    if not nxpatch.is_tracing():
        real = real_mirror(u_of, off_of, kind_of, fk, uf, of, L0, L1, X)
        if real != got:
            sys.stderr.write(f"MODEL-MISMATCH model={got} real={real}\n")
            sys.stderr.flush()
            os._exit(12)
    if got != want:
        return False
    return ok()


# ----------------------------------------------------------------------------- the real thing (concrete calls only)


def posix_tz(L0, L1):
    def off(s):
        s = -s
        sign = "-" if s < 0 else ""
        s = abs(s)
        return f"{sign}{s // 3600}:{(s % 3600) // 60:02d}:{s % 60:02d}"

    if L0 == L1:
        return f"<AAA>{off(L0)}"
    wall = dt.datetime.fromtimestamp(ANCHOR, dt.timezone.utc).replace(tzinfo=None) + dt.timedelta(seconds=L0)
    doy = wall.timetuple().tm_yday
    return f"<AAA>{off(L0)}<BBB>{off(L1)},J{doy}/{wall.hour}:{wall.minute:02d}:{wall.second:02d},J365/23:00:00"


class _RealLocalTZ(dt.tzinfo):
    """A real tzinfo for the process zone (one shared instance, like a ZoneInfo object): offset looked up through the C library
    for the naive fields + fold of the datetime it is attached to."""

    def utcoffset(self, d):
        naive = d.replace(tzinfo=None)
        ts = naive.timestamp()  # local time -> POSIX timestamp, fold-aware
        return naive - dt.datetime.fromtimestamp(ts, dt.timezone.utc).replace(tzinfo=None)

    def dst(self, d):
        return dt.timedelta(0)

    def tzname(self, d):
        return "LOCAL"


REAL_LOCAL = _RealLocalTZ()


def real_mirror(u_of, off_of, kind_of, fk, uf, of, L0, L1, X):
    """The same scenario with real datetimes, a real TZ and real files; instants shifted so that X = ANCHOR."""
    import tempfile
    import time

    d = ANCHOR - X
    old_tz = os.environ.get("TZ")
    os.environ["TZ"] = posix_tz(L0, L1)
    time.tzset()
    tmp = tempfile.mkdtemp(prefix="c18_")
    try:
        def mk_store(j):
            if kind_of[j] == "f":
                p = os.path.join(tmp, f"s{j}")
                open(p, "w").close()
                os.utime(p, (u_of[j] + d, u_of[j] + d))
                return TouchFileStore(p)
            if kind_of[j] == "z":
                return AwareStore(j, lambda j=j: dt.datetime.fromtimestamp(u_of[j] + d).replace(tzinfo=REAL_LOCAL))
            return AwareStore(j, lambda j=j: dt.datetime.fromtimestamp(u_of[j] + d, dt.timezone(dt.timedelta(seconds=off_of[j]))))

        def mk_fresh():
            if fk == "-":
                return None
            if fk == "z":
                return dt.datetime.fromtimestamp(uf + d).replace(tzinfo=REAL_LOCAL)
            if fk == "n":
                return dt.datetime.fromtimestamp(uf + d)
            return dt.datetime.fromtimestamp(uf + d, dt.timezone(dt.timedelta(seconds=of)))

        try:
            return scenario(None, None, fk, uf, of, mk_store, mk_fresh)
        except uberjob.CallError:
            return "error"
    finally:
        import shutil

        shutil.rmtree(tmp, ignore_errors=True)
        if old_tz is None:
            os.environ.pop("TZ", None)
        else:
            os.environ["TZ"] = old_tz
        time.tzset()


def c18_mtime_order(ua: int, ub: int, L0: int, L1: int, X: int) -> bool:
    """
    C12's 'get_modified_time never decreases across successive writes', for the bundled file stores across a zone
    transition: two successive writes at instants ua < ub; the datetimes the REAL get_modified_time returns must not
    decrease -- compared the way uberjob compares them (after _to_naive_utc_time) and as plain datetimes.

    pre: ua < ub
    pre: -50400 <= L0 <= 50400 and -50400 <= L1 <= 50400
    pre: X - 1000000 < ua < X + 1000000 and X - 1000000 < ub < X + 1000000
    post: _
    """
    begin()
    if not _zone_ok(L0, L1, X) or X != ANCHOR:
        return True
    Z.L0, Z.L1, Z.X = L0, L1, X
    import uberjob._transformations.caching as caching

    MTIMES.clear()
    MTIMES["/model/p"] = ua
    install_fs_model(True)
    try:
        ta = TouchFileStore("/model/p").get_modified_time()
        MTIMES["/model/p"] = ub
        tb = TouchFileStore("/model/p").get_modified_time()
    finally:
        install_fs_model(False)
    na, nb = caching._to_naive_utc_time(ta), caching._to_naive_utc_time(tb)
    if os.environ.get("XH_ORDER_AS", "uberjob") == "uberjob":
        if nb < na:
            return False
    elif tb < ta:
        return False
    return ok()
