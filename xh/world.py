"""E1 shared world: real uberjob on top of a sequential engine stand-in, logical-clock stores, plan shapes, oracles.

Everything here is a *stub or an oracle* and is listed as such in the evidence files:
  seq_engine  sequential stand-in for run_function_on_graph satisfying the engine contract that E2 establishes
              (acyclicity check first; fn(node) once per node in a topological order; first failure is coerced to
              NodeError and raised; nothing after it starts)
  LStore      in-memory ValueStore with a logical clock (write => t := ++clock), an operation counter for cuts
  T / FT      duck-typed datetimes carrying an int (tzinfo None)
  Shape       concrete plan shape per condition (case split), built through the public Plan/Registry API
"""
import atexit
import datetime as dt
import json
import os
import sys

sys.path.insert(0, os.environ.get("VERIF_SRC", "/repo/src"))

import nxpatch  # noqa: E402

nxpatch.install()

import uberjob  # noqa: E402
import uberjob._execution.run_physical as _rp  # noqa: E402
import uberjob._transformations.caching as _caching  # noqa: E402
from uberjob._execution.run_function_on_graph import coerce_node_error  # noqa: E402
from uberjob._util.networkx_util import assert_acyclic  # noqa: E402

assert uberjob.__file__.startswith(os.environ.get("VERIF_SRC", "/repo/src")), uberjob.__file__

TWIN = os.environ.get("XH_TWIN") == "1"

try:  # CrossHair 0.0.110 turns functools.lru_cache into a no-op under tracing (so that symbolic arguments are not hashed).  In these
    # harnesses everything uberjob could memoise is keyed by concrete objects (functions, classes, nodes), and a memo that should not
    # be there is exactly the kind of defect to be found: restore the real behaviour.
    import crosshair.core_and_libs  # noqa: F401
    from crosshair import core as _xc
    from functools import _lru_cache_wrapper

    _xc._PATCH_REGISTRATIONS.pop(_lru_cache_wrapper.__call__, None)

    # CrossHair 0.0.110 answers dict.get(key) for a non-scalar key by a linear search with ==, without hashing the key: an
    # unhashable key (a tuple holding a list / dict / set) gets `default` where CPython raises TypeError -- and code that probes
    # hashability with try: d.get(key) / except TypeError then takes a branch it never takes in CPython.  Restore the TypeError.
    from crosshair.simplestructs import SimpleDict as _SimpleDict
    from crosshair.tracers import NoTracing as _NoTracing
    from crosshair.tracers import ResumedTracing as _ResumedTracing

    _xh_dict_get = _xc._PATCH_REGISTRATIONS.get(dict.get)

    def _hashable(k, depth=0):
        t = type(k)
        if getattr(t, "__hash__", None) is None:
            return False
        if depth < 6 and isinstance(k, (tuple, frozenset)):
            try:
                return all(_hashable(e, depth + 1) for e in tuple.__iter__(k))
            except TypeError:
                return True  # a symbolic tuple: leave it to CrossHair
        return True

    def _dict_get_faithful(self, key, default=None):
        # same structure as crosshair.libimpl.builtinslib._dict_get, plus the hashability test
        with _NoTracing():
            if isinstance(key, (int, float, str)) or not isinstance(self, dict):
                return dict.get(self, key, default)
            if not _hashable(key):
                raise TypeError("unhashable type in dict key")
            symbolic_self = _SimpleDict(list(self.items()))
            with _ResumedTracing():
                return symbolic_self.get(key, default)

    if _xh_dict_get is not None:
        _xc._PATCH_REGISTRATIONS[dict.get] = _dict_get_faithful
except Exception:  # crosshair not importable: plain concrete run
    pass


class _Null:
    def __enter__(self):
        return self

    def __exit__(self, *a):
        return False


def nxpatch_notrace():
    return nxpatch.NoTracing() if (nxpatch.NoTracing is not None and nxpatch.is_tracing()) else _Null()

_paths = [0]
_stats_fd = int(os.environ["XH_STATS_FD"]) if os.environ.get("XH_STATS_FD") else None


_LRU = []


def _clear_uberjob_caches():
    """Every execution path starts from the state a fresh process would have: functools.lru_cache memos of uberjob's own functions are
    emptied (within ONE execution they work as in CPython -- see the lru_cache note above -- so a memo that should not be there still
    shows; across CrossHair's paths they would make the execution non-deterministic)."""
    if not _LRU:
        from functools import _lru_cache_wrapper

        _LRU.append(None)
        for name, mod in list(sys.modules.items()):
            if name == "uberjob" or name.startswith("uberjob."):
                for val in list(vars(mod).values()):
                    if isinstance(val, _lru_cache_wrapper):
                        _LRU.append(val)
    for f in _LRU[1:]:
        f.cache_clear()


def begin():
    with nxpatch_notrace():
        _clear_uberjob_caches()
    _paths[0] += 1
    if _stats_fd is not None:
        with nxpatch_notrace():
            try:
                os.pwrite(_stats_fd, b'{"paths": %-12d}' % _paths[0], 0)
            except Exception:
                pass


def ok():
    """Final verdict of a harness: True, or False for the vacuity twin (must then be reported reachable)."""
    return not TWIN


@atexit.register
def _dump_stats():
    p = os.environ.get("XH_STATS")
    if p:
        try:
            json.dump({"paths": _paths[0]}, open(p, "w"))
        except Exception:
            pass


# ----------------------------------------------------------------------------- engine stand-in
ENGINE_CALLS = []
ORDER = os.environ.get("XH_ORDER", "lifo")


def seq_engine(graph, fn, *, worker_count=None, max_errors=0, scheduler=None):
    ENGINE_CALLS.append({"worker_count": worker_count, "max_errors": max_errors, "scheduler": scheduler, "n": len(graph)})
    assert_acyclic(graph)
    pred = {n: len(graph.pred[n]) for n in graph.nodes}
    ready = [n for n in graph.nodes if pred[n] == 0]
    first = None
    while ready:
        node = ready.pop() if ORDER == "lifo" else ready.pop(0)
        try:
            fn(node)
        except BaseException as e:  # as the real process_node does
            first = coerce_node_error(node, e)
            break  # max_errors=0, one worker: nothing else starts
        for s in graph.succ[node]:
            pred[s] -= 1
            if pred[s] == 0:
                ready.append(s)
    if first:
        raise first


def install_engine():
    """Replace the thread engine by the sequential stand-in wherever uberjob can reach it: every loaded uberjob module that binds
    the name (however it imported it), including the defining module itself."""
    import uberjob._execution.run_function_on_graph as _rfg_mod

    real = getattr(_rfg_mod, "_verif_real_engine", None) or _rfg_mod.run_function_on_graph
    _rfg_mod._verif_real_engine = real
    for name, mod in list(sys.modules.items()):
        if name == "uberjob" or name.startswith("uberjob."):
            for attr, val in list(vars(mod).items()):
                if val is real:
                    setattr(mod, attr, seq_engine)
    _caching.run_function_on_graph = seq_engine
    _rp.run_function_on_graph = seq_engine


# ----------------------------------------------------------------------------- time
class T:
    """Duck-typed naive datetime: an int instant."""

    __slots__ = ("t",)
    tzinfo = None

    def __init__(self, t):
        self.t = t

    def __gt__(self, o):
        return self.t > o.t

    def __lt__(self, o):
        return self.t < o.t

    def __ge__(self, o):
        return self.t >= o.t

    def __le__(self, o):
        return self.t <= o.t

    def __eq__(self, o):
        return hasattr(o, "t") and self.t == o.t

    def __ne__(self, o):
        return not self.__eq__(o)

    def __hash__(self):
        return 0

    def __repr__(self):
        return f"T({self.t})"


class FT(dt.datetime):
    """A real datetime subclass (so run()'s own isinstance check is executed) ordered by an int instant."""

    def __new__(cls, t):
        o = dt.datetime.__new__(cls, 2000, 1, 1)
        o.t = t
        return o

    def __gt__(self, o):
        return self.t > o.t

    def __lt__(self, o):
        return self.t < o.t

    def __ge__(self, o):
        return self.t >= o.t

    def __le__(self, o):
        return self.t <= o.t

    def __eq__(self, o):
        return hasattr(o, "t") and self.t == o.t

    def __ne__(self, o):
        return not self.__eq__(o)

    def __hash__(self):
        return 0


# ----------------------------------------------------------------------------- world / stores
NOW = 1000000000  # the logical clock starts here; every symbolic pre-state time and fresh_time is assumed earlier

class Cut(Exception):
    pass


class Die(BaseException):
    """Stands for the process dying: not an Exception, so uberjob's `except Exception` handlers do not run."""


class Empty(Exception):
    pass


class World:
    def __init__(self, clock, cut=-1, cut_kind="raise"):
        self.clock = clock
        self.ops = 0
        self.cut = cut
        self.cut_kind = cut_kind
        self.log = []
        self.optags = []

    def op(self, tag):
        i = self.ops
        self.ops += 1
        self.optags.append(tag)
        if i == self.cut:
            raise (Die(tag) if self.cut_kind == "die" else Cut(tag))

    def tick(self):
        self.clock += 1
        return self.clock


class LStore(uberjob.ValueStore):
    def __init__(self, name, present, t, val, world, normalise=False):
        self.name, self.present, self.t, self.val, self.w, self.normalise = name, present, t, val, world, normalise

    def read(self):
        self.w.op(("r", self.name))
        self.w.log.append(("r", self.name))
        if not self.present:
            raise Empty(self.name)
        return ("norm", self.val) if self.normalise else self.val

    def write(self, v):
        self.w.op(("wb", self.name))
        self.val = v
        self.present = True
        self.t = self.w.tick()
        self.w.log.append(("w", self.name))
        self.w.op(("wa", self.name))

    def get_modified_time(self):
        self.w.op(("m", self.name))
        self.w.log.append(("m", self.name))
        return T(self.t) if self.present else None

    def __repr__(self):
        return "LStore()"  # deliberately the same for every store: a repr is not an identity


if os.environ.get("XH_FALSY") == "1":
    # a user store class with a container-like protocol: len() = number of values it holds, so the store object is FALSY while it is
    # empty.  uberjob may only ever ask `is None` of a registry entry, never its truth value
    LStore.__len__ = lambda self: 1 if self.present else 0


def mk_fn(name, world, side_effect=None):
    def f(*a, **kw):
        world.op(("c", name))
        world.log.append(("c", name))
        if side_effect is not None:
            side_effect(a)
        return (name,) + a + tuple(sorted(kw.items()))

    f.__name__ = f.__qualname__ = f"f{name}"
    return f


# ----------------------------------------------------------------------------- shapes
class Shape:
    """n nodes 0..n-1 (index order is a topological order); edges (i, j, kind) kind 'a' argument / 'd' add_dependency;
    roles[j] in {'call','store','src','lit','slit'}; out: node index or None.
    'lit' is a plain plan.lit(...) node (it can have add_dependency predecessors and be an argument or dependency of later
    nodes); 'slit' is a literal registered with registry.add (its value is written to / read back from its store).
    A 'src' with incoming 'd' edges is a dependent source: its generator is the (single) predecessor call, whose
    function rewrites the source store as a side effect."""

    def __init__(self, name, n, edges, roles, out, order=None):
        self.name, self.n, self.edges, self.roles, self.out = name, n, [tuple(e) for e in edges], list(roles), out
        # creation (= registration) order of the nodes; default: index order.  Only add_dependency edges may point "backwards" in it.
        self.order = list(order) if order else list(range(n))
        self.preds = {j: [(i, k) for (i, jj, k) in self.edges if jj == j] for j in range(n)}
        self.succs = {i: [(j, k) for (ii, j, k) in self.edges if ii == i] for i in range(n)}
        self.registered = [r in ("store", "src", "slit") for r in roles]
        for (i, j, k) in self.edges:
            assert i < j and k in "ad"
            assert not (roles[j] in ("src", "lit", "slit") and k == "a")  # only add_dependency edges lead into sources / literals

    def near(self, n):
        """Registered ancestors of n reachable through unregistered intermediates (any edge kind)."""
        out, seen, todo = [], set(), [i for i, _ in self.preds[n]]
        while todo:
            i = todo.pop()
            if i in seen:
                continue
            seen.add(i)
            if self.registered[i]:
                out.append(i)
            else:
                todo.extend(p for p, _ in self.preds[i])
        return sorted(out)

    def to_json(self):
        return {"name": self.name, "n": self.n, "edges": self.edges, "roles": self.roles, "out": self.out, "order": self.order}


def shape_from_env():
    d = json.loads(os.environ["XH_SHAPE"])
    return Shape(d["name"], d["n"], d["edges"], d["roles"], d["out"], d.get("order"))


class Built:
    pass


def build(shape, world, P, TT, K=None, normalise=False):
    """Build plan + registry through the public API. P/TT: present flags / times per node (used for registered nodes).
    K[j]: stored value of a non-source store is the from-scratch value (else a garbage term)."""
    b = Built()
    b.plan, b.reg = uberjob.Plan(), uberjob.Registry()
    b.nodes, b.stores, b.scratch = [None] * shape.n, [None] * shape.n, [None] * shape.n
    gens = {}  # dependent source index -> generator call (first predecessor; through a chain of dependent sources: their generator)
    for j in range(shape.n):
        if shape.roles[j] == "src" and shape.preds[j]:
            g_ = shape.preds[j][0][0]
            gens[j] = gens.get(g_, g_) if shape.roles[g_] == "src" else g_
    genby = {}  # generator call -> the dependent sources it rewrites, in index order
    for s_, g_ in sorted(gens.items()):
        genby.setdefault(g_, []).append(s_)
    for j in shape.order:  # creation = registration order
        role = shape.roles[j]
        args = [i for i, k in shape.preds[j] if k == "a"]
        if role == "src":
            if j in gens:
                sv = ("gen", j) + tuple(b.scratch[i] for i, k in shape.preds[gens[j]] if k == "a")
            else:
                sv = ("srcval", j)
            st = LStore(j, P[j], TT[j], sv if (K is None or K[j] or j not in gens) else ("garbage", j), world, normalise)
            node = b.reg.source(b.plan, st)
            b.scratch[j] = ("norm", sv) if normalise else sv
        elif role in ("lit", "slit"):
            sv = ("litval", j)
            node = b.plan.lit(sv)
            st = None
            if role == "slit":
                st = LStore(j, P[j], TT[j], sv if (K is None or K[j]) else ("garbage", j), world, normalise)
                b.reg.add(node, st)
                b.scratch[j] = ("norm", sv) if normalise else sv
            else:
                b.scratch[j] = sv
            b.nodes[j] = node
            b.stores[j] = st
            continue
        else:
            argvals = tuple(b.scratch[i] for i in args)
            sv = (j,) + argvals
            side = None
            if j in genby:
                def side(a, targets=tuple(genby[j])):
                    # the generator call rewrites the stores of its dependent sources (in dependency order)
                    for s_idx in targets:
                        tgt = b.stores[s_idx]
                        tgt.val = ("gen", s_idx) + a
                        tgt.present = True
                        tgt.t = world.tick()

            node = b.plan.call(mk_fn(j, world, side), *[b.nodes[i] for i in args])
            st = None
            if role == "store":
                st = LStore(j, P[j], TT[j], sv if (K is None or K[j]) else ("garbage", j), world, normalise)
                b.reg.add(node, st)
                b.scratch[j] = ("norm", sv) if normalise else sv
            else:
                b.scratch[j] = sv
        b.nodes[j] = node
        b.stores[j] = st
    for (i, j, k) in shape.edges:
        if k == "d":
            b.plan.add_dependency(b.nodes[i], b.nodes[j])
    return b


# ----------------------------------------------------------------------------- oracles (declarative, independent of caching.py)
def looks_up_to_date(shape, P, TT):
    """U(n) for registered n, fresh_time absent: present and every near registered ancestor looks up to date and is older."""
    U = {}
    for n in range(shape.n):
        if not shape.registered[n]:
            continue
        u = bool(P[n])
        if u:
            for m in shape.near(n):
                if not (U[m] and TT[m] < TT[n]):
                    u = False
                    break
        U[n] = u
    return U


def stale_oracle(shape, P, TT, hf, ft):
    """Out-of-date set per the property text: missing, older than fresh_time, older than a near registered ancestor,
    or downstream of an out-of-date one.  A pure source (no ancestors) is out of date only when missing."""
    S = {}
    for n in range(shape.n):
        if not shape.registered[n]:
            continue
        near = shape.near(n)
        s = not P[n]
        if not s:
            for m in near:
                if S[m] or TT[m] > TT[n]:
                    s = True
                    break
        if not s and hf and (shape.roles[n] != "src" or near) and ft > TT[n]:
            s = True
        S[n] = s
    return S


def expected_events(shape, S, out):
    """Events of a successful run: calls (need set), writes, reads -- from the stale set S and the requested output."""
    need = set()  # nodes whose call must execute in memory
    reads = set()
    todo = []
    for n in range(shape.n):
        if shape.roles[n] in ("store", "slit") and S[n]:
            todo.append(n)
        if shape.roles[n] == "src" and S[n]:
            # Barrier carries the source's predecessors
            for p, _k in shape.preds[n]:
                if not shape.registered[p]:
                    todo.append(p)
    if out is not None:
        if shape.registered[out]:
            reads.add(out)
        else:
            todo.append(out)
    while todo:
        x = todo.pop()
        if x in need:
            continue
        need.add(x)
        for p, k in shape.preds[x]:
            if shape.registered[p]:
                if k == "a":
                    reads.add(p)
            else:
                todo.append(p)
    calls = sorted(n for n in need if shape.roles[n] in ("call", "store"))
    writes = sorted(n for n in range(shape.n) if shape.roles[n] in ("store", "slit") and S[n])
    return calls, writes, sorted(reads)


def consistent(shape, P, TT):
    """States a history can reach: a dependent source is rewritten by the same generator call as (and after) the dependent
    source it depends on, so when both are present the downstream one is the newer."""
    for n in range(shape.n):
        if shape.roles[n] == "src":
            for p_, _k in shape.preds[n]:
                if shape.roles[p_] == "src" and shape.preds[p_] and P[n] and P[p_] and not (TT[p_] < TT[n]):
                    return False
    return True


def missing_needed(shape, P, S, calls, reads):
    """Reads that must fail: a missing value this run does not (re)build first.  A stored value is rebuilt when out of
    date; a dependent source only when its generator (first predecessor) is itself executed in this run."""
    out = []
    def generator(n):
        g_ = shape.preds[n][0][0]
        while shape.roles[g_] == "src" and shape.preds[g_]:
            g_ = shape.preds[g_][0][0]
        return g_

    for n in reads:
        if P[n]:
            continue
        if shape.roles[n] in ("store", "slit") and S[n]:
            continue
        if shape.roles[n] == "src" and shape.preds[n] and S[n] and generator(n) in calls:
            continue
        out.append(n)
    return out


def run(b, shape, world, **kw):
    kw.setdefault("progress", None)
    kw.setdefault("max_workers", 1)
    out = b.nodes[shape.out] if shape.out is not None else None
    return uberjob.run(b.plan, registry=b.reg, output=out, **kw)


def distinct(*ts):
    for i in range(len(ts)):
        for j in range(i):
            if ts[i] == ts[j]:
                return False
    return True
