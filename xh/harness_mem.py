"""E1 harness for C16 (intermediate results are released as soon as their last consumer has finished).

The real uberjob.run -> prune -> run_physical -> prep_run_physical / process / BoundCall.run, driven by a sequential engine
stand-in that, after EVERY call of process(node) (normal return or exception), inspects what is still referenced:

  walk        everything reachable from what uberjob holds at that moment -- the locals of uberjob's live frames
              (run_physical, _run.run), the `process` closure, the physical graph, the output slot, and the first recorded
              error (with its __cause__ / __context__ / __traceback__ frames, as the real engine keeps first_node_error until the
              run ends) -- following gc.get_referents (functions: closure cells and defaults only; modules / types / code are
              not entered)
  garbage     after the walk, the cycle collector is run with DEBUG_SAVEALL: frames of uberjob's own functions found in the
              collected garbage (a frame <-> traceback <-> exception cycle that only the cycle collector frees) must not pin a
              result that is no longer allowed to be alive either.  (Plain reference-count liveness cannot be used under
              CrossHair, whose tracer keeps frames of raised exceptions alive.)

Oracle (declarative, on the physical graph the engine was given): the result of call p may be alive after a step iff
p is (part of) the requested output -- i.e. it is, or is contained in, the value the output call will return -- or some
call that takes p as an argument (positional / keyword edge; gather calls included) has not been processed yet.
Plain add_dependency edges do not consume.  A consumer that failed has finished.

Symbolic: the DAG on XH_N nodes (one bool per pair i<j), the processing order (distinct symbolic ranks -> a topological order
of the PHYSICAL graph, ties broken by rank), which node fails (or none), and how: an Exception / a BaseException raised by a Python
function, or a TypeError raised by a C-level callable (no Python frame of its own in the traceback).  Concrete case split (environment): XH_N, XH_EDGE (pos | kw | dep | mix), XH_OUT (last | none | list | all |
first), XH_RETRY (1 | 2 with the failing node flaky: first attempt raises, second succeeds),
XH_MAXERR (none: the run carries on after a failure | 0).
"""
import gc
import os
import sys
import types
import weakref

import world as W
from world import begin, ok

import uberjob  # noqa: E402
import uberjob._execution.run_physical as RP  # noqa: E402
from uberjob._execution.run_function_on_graph import coerce_node_error  # noqa: E402
from uberjob._util.networkx_util import assert_acyclic  # noqa: E402
from uberjob.graph import Call, KeywordArg, Literal, PositionalArg  # noqa: E402

import nxpatch  # noqa: E402

N = int(os.environ.get("XH_N", "3"))
EDGE = os.environ.get("XH_EDGE", "pos")
OUT = os.environ.get("XH_OUT", "last")
RETRY = int(os.environ.get("XH_RETRY", "1"))
MAXERR = None if os.environ.get("XH_MAXERR", "none") == "none" else int(os.environ["XH_MAXERR"])
FAIL_ONLY = int(os.environ["XH_FAIL"]) if os.environ.get("XH_FAIL") else None  # optional case split of the failing node
SRC = os.environ.get("VERIF_SRC", "/repo/src")


class Res:
    """A call result: a plain object, identified by the call that made it."""

    __slots__ = ("k", "attempt", "__weakref__")

    def __init__(self, k, attempt):
        self.k, self.attempt = k, attempt


class Boom(Exception):
    pass


class BaseBoom(BaseException):
    pass


class State:
    pass


ST = State()


def reset():
    ST.made = {}  # call index -> weak reference to the Res it returned (the harness itself must not keep results alive)
    ST.attempts = {}
    ST.fail = -1
    ST.fail_base = False
    ST.fail_c = False
    ST.failed_py = set()
    ST.flaky = False
    ST.ranks = []
    ST.problems = []
    ST.order = []
    ST.steps = 0
    ST.fn_of = {}


def mk_fn(k):
    def f(*a, **kw):
        del a, kw  # the user's frame must not be what keeps the arguments alive
        n = ST.attempts.get(k, 0) + 1
        ST.attempts[k] = n
        if k == ST.fail and (not ST.flaky or n == 1):
            raise (BaseBoom(k) if ST.fail_base else Boom(k))
        r = Res(k, n)
        ST.made[k] = weakref.ref(r)
        return r

    f.__name__ = f.__qualname__ = f"f{k}"
    return f


# ----------------------------------------------------------------------------- inspection
_SKIP_TYPES = (types.ModuleType, type, types.CodeType, types.BuiltinFunctionType, types.MethodDescriptorType,
               types.WrapperDescriptorType, types.GetSetDescriptorType, types.MemberDescriptorType, str, bytes, int, float, bool, type(None))


def _children(o):
    if isinstance(o, types.FunctionType):
        out = [c for c in (o.__closure__ or ())]
        out += list(o.__defaults__ or ())
        out += list((o.__kwdefaults__ or {}).values())
        return out
    if isinstance(o, types.MethodType):
        return [o.__self__, o.__func__]
    return gc.get_referents(o)


def reachable_results(roots):
    """ids of the Res objects reachable from the roots -> {id: Res}."""
    seen, todo, found = set(), list(roots), {}
    while todo:
        o = todo.pop()
        i = id(o)
        if i in seen or isinstance(o, _SKIP_TYPES) or o is ST:
            continue
        seen.add(i)
        if type(o) is Res:
            found[i] = o
            continue
        try:
            todo.extend(_children(o))
        except Exception:
            pass
    return found


def uberjob_frames():
    out, f = [], sys._getframe(1)
    while f is not None:
        if f.f_code.co_filename.startswith(SRC):
            out.append(f)
        f = f.f_back
    return out


def contained(v, acc):
    """Res objects that are, or are contained in, the value v (built-in containers only)."""
    if type(v) is Res:
        acc[id(v)] = v
    elif type(v) in (list, tuple, set, frozenset):
        for x in v:
            contained(x, acc)
    elif type(v) is dict:
        for a, b in v.items():
            contained(a, acc)
            contained(b, acc)
    return acc


def arg_consumers(graph, node):
    return [s for _p, s, key in graph.out_edges(node, keys=True) if type(key) in (PositionalArg, KeywordArg)]


def in_output(graph, node, output_node, memo):
    """node's value is (part of) what the output call returns: node is the output, or an argument of a gather call that is."""
    if node is output_node:
        return True
    if node in memo:
        return memo[node]
    memo[node] = False
    r = any(getattr(c.fn, "__module__", "") == "uberjob._builtins" and getattr(c.fn, "__name__", "").startswith("gather_")
            and in_output(graph, c, output_node, memo) for c in arg_consumers(graph, node))
    memo[node] = r
    return r


def holders(obj):
    """Who references obj (diagnostics for the replay output)."""
    out = []
    for r in gc.get_referrers(obj):
        name = type(r).__name__
        if name == "frame":
            if r is sys._getframe(0) or r is sys._getframe(1):
                continue
            name += ":" + r.f_code.co_name
        out.append(name)
    return sorted(out)


def inspect_step(graph, fn, done, first_error, output_node, frames):
    """After a step: every result that uberjob still holds (reachable from its live frames, the process closure, the graph
    and the error it keeps) must be allowed to be."""
    with W.nxpatch_notrace():
        roots = [fn, graph] + [v for fr in frames for v in fr.f_locals.values()] + ([first_error] if first_error is not None else [])
        live = reachable_results(roots)
        idx_of = {ST.fn_of[id(c.fn)]: c for c in graph.nodes() if type(c) is Call and id(c.fn) in ST.fn_of}
        memo = {}
        for k, ref in list(ST.made.items()):
            node = idx_of.get(k)
            obj = ref()
            if node is None or obj is None or id(obj) not in live:
                continue
            cons = arg_consumers(graph, node)
            allowed = in_output(graph, node, output_node, memo) or any(c not in done for c in cons)
            # a consumer that failed inside a Python function: CPython keeps the f_back chain of the traceback's frames alive, so
            # the exception uberjob keeps to report (first_node_error) pins BoundCall.run's frame and with it that call's arguments
            allowed = allowed or any(c in ST.failed_py for c in cons)
            if not allowed:
                ST.problems.append(("kept", k, "after step %d" % len(ST.order), holders(obj)))
        del live, roots
        # (b) unreachable garbage: frames of uberjob's own functions that are only waiting for the cycle collector (a frame <->
        #     traceback <-> exception cycle) still pin whatever their locals reference.  Collect with DEBUG_SAVEALL, look at what
        #     the garbage uberjob frames reach, then let it go.
        old_flags = gc.get_debug()
        gc.set_debug(gc.DEBUG_SAVEALL)
        try:
            gc.collect()
            garbage = list(gc.garbage)
            del gc.garbage[:]
        finally:
            gc.set_debug(old_flags)
        gframes = [o for o in garbage if isinstance(o, types.FrameType) and o.f_code.co_filename.startswith(SRC)]
        if gframes:
            pinned = reachable_results([v for fr in gframes for v in fr.f_locals.values()])
            # (the collector has already cleared the weak references to unreachable results: identify them by their index)
            for obj in list(pinned.values()):
                k = obj.k
                node = idx_of.get(k)
                if node is None:
                    continue
                cons = arg_consumers(graph, node)
                if in_output(graph, node, output_node, memo) or any(c not in done for c in cons) or any(c in ST.failed_py for c in cons):
                    continue
                ST.problems.append(("kept-by-garbage-cycle", k, "after step %d" % len(ST.order),
                                    sorted({fr.f_code.co_name for fr in gframes})))
            del obj
            del pinned
        del garbage, gframes
    ST.steps += 1


def engine(graph, fn, *, worker_count=None, max_errors=0, scheduler=None):
    """Sequential stand-in for run_function_on_graph (engine contract: C01/C04/C06/C07) with an inspection after every step.
    Order: among the ready nodes the one whose symbolic rank is smallest (call nodes: rank of their index; others: first)."""
    assert_acyclic(graph)
    frames = uberjob_frames()
    output_node = None
    for fr in frames:
        if fr.f_code.co_name == "run_physical" and "output_node" in fr.f_locals:
            output_node = fr.f_locals["output_node"]
    pred = {n: len(graph.pred[n]) for n in graph.nodes}
    ready = [n for n in graph.nodes if pred[n] == 0]
    done = set()
    first = None

    def rank(n):
        k = ST.fn_of.get(id(getattr(n, "fn", None)))
        return None if k is None else ST.ranks[k]

    while ready:
        best = 0
        for i in range(1, len(ready)):
            rb, ri = rank(ready[best]), rank(ready[i])
            if rb is not None and (ri is None or ri < rb):
                best = i
        node = ready.pop(best)
        ok_ = True
        try:
            fn(node)
        except BaseException as e:
            ok_ = False
            if first is None:
                first = coerce_node_error(node, e)
            if not (ST.fail_c and ST.fn_of.get(id(getattr(node, "fn", None))) == ST.fail):
                ST.failed_py.add(node)
            del e
        done.add(node)
        ST.order.append(ST.fn_of.get(id(getattr(node, "fn", None)), -1))
        inspect_step(graph, fn, done, first, output_node, frames)
        if not ok_:
            if max_errors is None:
                continue  # the run carries on with whatever does not depend on the failed call
            break
        for s in graph.succ[node]:
            pred[s] -= 1
            if pred[s] == 0:
                ready.append(s)
    if first:
        raise first


RP.run_function_on_graph = engine


def build(adj):
    plan = uberjob.Plan()
    nodes = []
    for j in range(N):
        pos, kw, deps = [], {}, []
        for i in range(j):
            if adj[i][j]:
                kind = EDGE if EDGE != "mix" else ("pos", "kw", "dep")[(i + j) % 3]
                if kind == "pos":
                    pos.append(nodes[i])
                elif kind == "kw":
                    kw[f"k{i}"] = nodes[i]
                else:
                    deps.append(nodes[i])
        # a failing C-level callable leaves no Python frame of its own in the traceback (max() raises TypeError for any Res arguments)
        f = max if (ST.fail_c and j == ST.fail) else mk_fn(j)
        ST.fn_of[id(f)] = j
        node = plan.call(f, *pos, **kw)
        for d in deps:
            plan.add_dependency(d, node)
        nodes.append(node)
    return plan, nodes


def output_spec(nodes):
    if OUT == "none":
        return None
    if OUT == "last":
        return nodes[-1]
    if OUT == "first":
        return nodes[0]
    if OUT == "list":
        return [nodes[-1], {"x": nodes[0]}, 7]
    if OUT == "all":
        return tuple(nodes)
    raise KeyError(OUT)


def _no(why):
    if not nxpatch.is_tracing() or os.environ.get("XH_DEBUG"):
        with W.nxpatch_notrace():
            sys.stderr.write("C16: " + why + "\n")
    return False


def c16_release(e01: bool, e02: bool, e12: bool, e03: bool, e13: bool, e23: bool, r0: int, r1: int, r2: int, r3: int, fail: int, fkind: int) -> bool:
    """
    pre: r0 != r1 and r0 != r2 and r0 != r3 and r1 != r2 and r1 != r3 and r2 != r3
    pre: -1 <= fail < 4
    pre: 0 <= fkind <= 2
    post: _
    """
    begin()
    if fail >= N or (FAIL_ONLY is not None and fail != FAIL_ONLY):
        return True
    if N < 4 and (e03 or e13 or e23 or r3 != 1000003):
        return True  # unused dimensions pinned
    reset()
    adj = [[False] * 4 for _ in range(4)]
    adj[0][1], adj[0][2], adj[1][2], adj[0][3], adj[1][3], adj[2][3] = e01, e02, e12, e03, e13, e23
    ST.ranks = [r0, r1, r2, r3]
    ST.fail, ST.fail_base, ST.fail_c = fail, fkind == 1, fkind == 2
    ST.flaky = RETRY > 1
    if fail < 0 and fkind != 0:
        return True
    if ST.flaky and fkind != 0:
        return True  # create_retry retries Exception only; the flaky call is a Python function
    plan, nodes = build(adj)
    out = output_spec(nodes)
    kw = {"retry": RETRY} if RETRY > 1 else {}
    raised = False
    was_enabled = gc.isenabled()
    with W.nxpatch_notrace():
        gc.collect()  # garbage of earlier executions (a failed run leaves an exception <-> frame cycle) must not be attributed to this one
    gc.disable()
    try:
        try:
            result = uberjob.run(plan, output=out, progress=None, max_workers=1, max_errors=MAXERR, **kw)
        except uberjob.CallError:
            raised = True
            result = None
        if ST.problems:
            return _no("problems: %r" % (ST.problems,))
        ran_failing = fail >= 0 and not ST.flaky and fail in ST.order
        if raised != ran_failing:
            return _no("raised=%r but the failing call ran=%r" % (raised, ran_failing))
        if ST.steps == 0 and out is not None:
            return _no("the engine stand-in was never reached")
        del result
    finally:
        if was_enabled:
            gc.enable()
    return ok()
