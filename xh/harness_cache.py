"""E1 harnesses for the incremental-caching properties C03 C05 C08 C09 C14 (real uberjob.run on the sequential engine
stand-in; store state symbolic; shape / cut index are the concrete case split given in the environment)."""
import os

import world as W
from world import begin, distinct, ok

W.install_engine()
import uberjob  # noqa: E402
from uberjob.graph import Call, Dependency, KeywordArg, Literal, PositionalArg  # noqa: E402

SHAPE = W.shape_from_env() if os.environ.get("XH_SHAPE") else None
CUT = int(os.environ.get("XH_CUT", "-1"))
CUT_KIND = os.environ.get("XH_CUT_KIND", "raise")


PRESENT = os.environ.get("XH_PRESENT")  # optional concrete case split of the present flags, e.g. "101"


def _state(p0, t0, p1, t1, p2, t2, p3, t3):
    P = [p0, p1, p2, p3][: SHAPE.n]
    if PRESENT:
        P = [c == "1" for c in PRESENT][: SHAPE.n]
    return P, [t0, t1, t2, t3][: SHAPE.n]


def _counts(log, kind):
    d = {}
    for k, n in log:
        if k == kind:
            d[n] = d.get(n, 0) + 1
    return d


# --------------------------------------------------------------------------------------------- C05
def c05_events(p0: bool, t0: int, p1: bool, t1: int, p2: bool, t2: int, p3: bool, t3: int, hf: bool, ft: int) -> bool:
    """
    pre: t0 != t1 and t0 != t2 and t0 != t3 and t1 != t2 and t1 != t3 and t2 != t3
    pre: ft != t0 and ft != t1 and ft != t2 and ft != t3
    pre: t0 < 1000000000 and t1 < 1000000000 and t2 < 1000000000 and t3 < 1000000000 and ft < 1000000000
    post: _
    """
    begin()
    sh = SHAPE
    P, TT = _state(p0, t0, p1, t1, p2, t2, p3, t3)
    w = W.World(W.NOW)
    b = W.build(sh, w, P, TT)
    S = W.stale_oracle(sh, P, TT, hf, ft)
    calls, writes, reads = W.expected_events(sh, S, sh.out)
    # reads that must fail: a missing value that this run does not (re)build first
    rebuilt = lambda n: S[n] and (sh.roles[n] == "store" or bool(sh.preds[n]))  # noqa: E731
    missing_needed = [n for n in reads if not P[n] and not rebuilt(n)]
    try:
        out = W.run(b, sh, w, fresh_time=W.FT(ft) if hf else None)
    except uberjob.CallError as e:
        # legitimate only if a needed source/stored value is missing and cannot be rebuilt
        if not missing_needed or not isinstance(e.__cause__, W.Empty):
            return False
        return ok()
    if missing_needed:
        return False  # a missing, needed pure source must have failed the run
    c, wr, rd = _counts(w.log, "c"), _counts(w.log, "w"), _counts(w.log, "r")
    if c != {n: 1 for n in calls}:
        return False
    if wr != {n: 1 for n in writes}:
        return False
    if rd != {n: 1 for n in reads}:
        return False
    if sh.out is not None and out != b.scratch[sh.out]:
        return False
    # repeated run with no output requested: nothing happens (only modified-time queries)
    w.log.clear()
    out2 = uberjob.run(b.plan, registry=b.reg, output=None, progress=None, max_workers=1,
                       fresh_time=W.FT(ft) if hf else None)
    if out2 is not None:
        return False
    if any(k in ("c", "r", "w") for k, _ in w.log):
        return False
    return ok()


# --------------------------------------------------------------------------------------------- C03 / C08
def _post_state(b, sh):
    P2 = [b.stores[j].present if sh.registered[j] else False for j in range(sh.n)]
    T2 = [b.stores[j].t if sh.registered[j] else 0 for j in range(sh.n)]
    return P2, T2


def c03_step(p0: bool, t0: int, p1: bool, t1: int, p2: bool, t2: int, p3: bool, t3: int, hf: bool, ft: int) -> bool:
    """
    One inductive step from an arbitrary store state satisfying invariant I (U(n) => stored value is the
    from-scratch value; everything else is garbage), optionally cut at operation XH_CUT.

    pre: t0 != t1 and t0 != t2 and t0 != t3 and t1 != t2 and t1 != t3 and t2 != t3
    pre: ft != t0 and ft != t1 and ft != t2 and ft != t3
    pre: t0 < 1000000000 and t1 < 1000000000 and t2 < 1000000000 and t3 < 1000000000 and ft < 1000000000
    post: _
    """
    begin()
    sh = SHAPE
    P, TT = _state(p0, t0, p1, t1, p2, t2, p3, t3)
    for j in range(sh.n):  # sources exist (a missing source is a failing run, not this property)
        if sh.roles[j] == "src" and not sh.preds[j] and not P[j]:
            return True
    U = W.looks_up_to_date(sh, P, TT)
    K = [U.get(j, False) for j in range(sh.n)]  # adversarial: correct exactly where I forces it
    w = W.World(W.NOW, CUT, CUT_KIND)
    b = W.build(sh, w, P, TT, K)
    cut = False
    try:
        out = W.run(b, sh, w, fresh_time=W.FT(ft) if hf else None)
    except uberjob.CallError as e:
        if not isinstance(e.__cause__, (W.Cut, W.Die)):
            return False
        cut = True
    if CUT >= 0 and not cut:
        return True  # fewer than CUT operations on this path: nothing to check (covered by the uncut condition)
    P2, T2 = _post_state(b, sh)
    U2 = W.looks_up_to_date(sh, P2, T2)
    scratch = b.scratch
    for j in range(sh.n):
        if sh.roles[j] == "store" or (sh.roles[j] == "src" and sh.preds[j]):
            correct = b.stores[j].val == _raw(scratch[j])
            if U2[j] and not correct:
                return False  # invariant I broken: the next run would trust a wrong value
            if not cut and not (P2[j] and correct and U2[j]):
                return False  # after success: every store present, from-scratch, and up to date
            if ("w", j) in w.log and ("wa", j) in w.optags and not U2[j]:
                # a write that completed before the cut must look up to date afterwards (not rebuilt next time)
                if all(U2[m] for m in sh.near(j)):
                    return False
    if not cut and sh.out is not None and out != scratch[sh.out]:
        return False
    if cut:
        # direct cross-check: the follow-up run repairs, and does not rewrite what was completely written
        done = [j for j in range(sh.n) if ("w", j) in w.log and U2.get(j)]
        w2log = len(w.log)
        w.cut = -1
        try:
            out = W.run(b, sh, w, fresh_time=W.FT(ft) if hf else None)
        except uberjob.CallError:
            return False
        if sh.out is not None and out != scratch[sh.out]:
            return False
        for j in range(sh.n):
            if sh.roles[j] == "store" and not (b.stores[j].present and b.stores[j].val == scratch[j]):
                return False
        later = w.log[w2log:]
        for j in done:
            if ("w", j) in later or ("c", j) in later:
                return False
    return ok()


def _raw(v):
    return v
