"""E1 harnesses for the incremental-caching properties C03 C05 C08 C09 C14 (real uberjob.run on the sequential engine
stand-in; store state symbolic; shape / cut index are the concrete case split given in the environment)."""
import os

import world as W
from world import begin, distinct, ok

W.install_engine()
import uberjob  # noqa: E402
from uberjob.graph import Call, Dependency, KeywordArg, Literal, PositionalArg  # noqa: E402

SHAPE = W.shape_from_env() if os.environ.get("XH_SHAPE") else None
CUT = int(os.environ.get("XH_CUT", "-1"))
CUT_KIND = os.environ.get("XH_CUT_KIND", "raise")


PRESENT = os.environ.get("XH_PRESENT")  # optional concrete case split of the present flags, e.g. "101"


def _state(p0, t0, p1, t1, p2, t2, p3, t3):
    P = [p0, p1, p2, p3][: SHAPE.n]
    if PRESENT:
        P = [c == "1" for c in PRESENT][: SHAPE.n]
    return P, [t0, t1, t2, t3][: SHAPE.n]


def _counts(log, kind):
    d = {}
    for k, n in log:
        if k == kind:
            d[n] = d.get(n, 0) + 1
    return d


# --------------------------------------------------------------------------------------------- C05
def c05_events(p0: bool, t0: int, p1: bool, t1: int, p2: bool, t2: int, p3: bool, t3: int, hf: bool, ft: int) -> bool:
    """
    pre: t0 != t1 and t0 != t2 and t0 != t3 and t1 != t2 and t1 != t3 and t2 != t3
    pre: ft != t0 and ft != t1 and ft != t2 and ft != t3
    pre: t0 < 1000000000 and t1 < 1000000000 and t2 < 1000000000 and t3 < 1000000000 and ft < 1000000000
    post: _
    """
    begin()
    sh = SHAPE
    P, TT = _state(p0, t0, p1, t1, p2, t2, p3, t3)
    if not W.consistent(sh, P, TT):
        return True  # not reachable by any history (chains of dependent sources)
    w = W.World(W.NOW)
    b = W.build(sh, w, P, TT)
    S = W.stale_oracle(sh, P, TT, hf, ft)
    calls, writes, reads = W.expected_events(sh, S, sh.out)
    # reads that must fail: a missing value that this run does not (re)build first
    missing_needed = W.missing_needed(sh, P, S, calls, reads)
    try:
        out = W.run(b, sh, w, fresh_time=W.FT(ft) if hf else None)
    except uberjob.CallError as e:
        # legitimate only if a needed source/stored value is missing and cannot be rebuilt
        if not missing_needed or not isinstance(e.__cause__, W.Empty):
            return False
        return ok()
    if missing_needed:
        return False  # a missing, needed pure source must have failed the run
    c, wr, rd = _counts(w.log, "c"), _counts(w.log, "w"), _counts(w.log, "r")
    if c != {n: 1 for n in calls}:
        return False
    if wr != {n: 1 for n in writes}:
        return False
    if rd != {n: 1 for n in reads}:
        return False
    if sh.out is not None and out != b.scratch[sh.out]:
        return False
    # repeated run with no output requested: nothing happens (only modified-time queries)
    w.log.clear()
    out2 = uberjob.run(b.plan, registry=b.reg, output=None, progress=None, max_workers=1,
                       fresh_time=W.FT(ft) if hf else None)
    if out2 is not None:
        return False
    if any(k in ("c", "r", "w") for k, _ in w.log):
        return False
    return ok()


# --------------------------------------------------------------------------------------------- C03 / C08
def _post_state(b, sh):
    P2 = [b.stores[j].present if sh.registered[j] else False for j in range(sh.n)]
    T2 = [b.stores[j].t if sh.registered[j] else 0 for j in range(sh.n)]
    return P2, T2


def c03_step(p0: bool, t0: int, p1: bool, t1: int, p2: bool, t2: int, p3: bool, t3: int, hf: bool, ft: int) -> bool:
    """
    One inductive step from an arbitrary store state satisfying invariant I (U(n) => stored value is the
    from-scratch value; everything else is garbage), optionally cut at operation XH_CUT.

    pre: t0 != t1 and t0 != t2 and t0 != t3 and t1 != t2 and t1 != t3 and t2 != t3
    pre: ft != t0 and ft != t1 and ft != t2 and ft != t3
    pre: t0 < 1000000000 and t1 < 1000000000 and t2 < 1000000000 and t3 < 1000000000 and ft < 1000000000
    post: _
    """
    begin()
    sh = SHAPE
    P, TT = _state(p0, t0, p1, t1, p2, t2, p3, t3)
    if not W.consistent(sh, P, TT):
        return True  # not reachable by any history (chains of dependent sources)
    for j in range(sh.n):  # sources exist (a missing source is a failing run, not this property)
        if sh.roles[j] == "src" and not sh.preds[j] and not P[j]:
            return True
    U = W.looks_up_to_date(sh, P, TT)
    K = [U.get(j, False) for j in range(sh.n)]  # adversarial: correct exactly where I forces it
    w = W.World(W.NOW, CUT, CUT_KIND)
    b = W.build(sh, w, P, TT, K)
    cut = False
    try:
        out = W.run(b, sh, w, fresh_time=W.FT(ft) if hf else None)
    except uberjob.CallError as e:
        if not isinstance(e.__cause__, (W.Cut, W.Die)):
            return False
        cut = True
    if CUT >= 0 and not cut:
        return True  # fewer than CUT operations on this path: nothing to check (covered by the uncut condition)
    P2, T2 = _post_state(b, sh)
    U2 = W.looks_up_to_date(sh, P2, T2)
    scratch = b.scratch
    for j in range(sh.n):
        if sh.roles[j] in ("store", "slit") or (sh.roles[j] == "src" and sh.preds[j]):
            correct = b.stores[j].val == _raw(scratch[j])
            if U2[j] and not correct:
                return False  # invariant I broken: the next run would trust a wrong value
            if not cut and not (P2[j] and correct and U2[j]):
                return False  # after success: every store present, from-scratch, and up to date
            if ("w", j) in w.log and ("wa", j) in w.optags and not U2[j]:
                # a write that completed before the cut must look up to date afterwards (not rebuilt next time)
                if all(U2[m] for m in sh.near(j)):
                    return False
    if not cut and sh.out is not None and out != scratch[sh.out]:
        return False
    if cut:
        # direct cross-check: the follow-up run repairs, and does not rewrite what was completely written
        done = [j for j in range(sh.n) if ("w", j) in w.log and U2.get(j)]
        w2log = len(w.log)
        w.cut = -1
        try:
            out = W.run(b, sh, w, fresh_time=W.FT(ft) if hf else None)
        except uberjob.CallError:
            return False
        if sh.out is not None and out != scratch[sh.out]:
            return False
        for j in range(sh.n):
            if sh.roles[j] in ("store", "slit") and not (b.stores[j].present and b.stores[j].val == scratch[j]):
                return False
        later = w.log[w2log:]
        for j in done:
            if ("w", j) in later or ("c", j) in later:
                return False
    return ok()


def _raw(v):
    return v


# --------------------------------------------------------------------------------------------- C09
def _phys_index(g, b, sh):
    """Locate the store read / write calls of the physical plan: {j: node} by the store object they are bound to."""
    wn, rn = {}, {}
    for node in g.nodes():
        if type(node) is not Call:
            continue
        if node.fn is W.LStore.write or node.fn is W.LStore.read:
            args, _kw = uberjob.graph.get_argument_nodes(g, node)
            st = args[0].value if args and type(args[0]) is Literal else None
            for j in range(sh.n):
                if b.stores[j] is st:
                    tgt = wn if node.fn is W.LStore.write else rn
                    if j in tgt:
                        return None  # two write (or two read) calls for one store
                    tgt[j] = node
    return wn, rn


def _reach(g, a, b_):
    """a ~> b_ along edges of the physical graph (a != b_)."""
    seen, todo = set(), [a]
    while todo:
        x = todo.pop()
        for s in g.successors(x):
            if s is b_:
                return True
            if s not in seen:
                seen.add(s)
                todo.append(s)
    return False


def c09_order(p0: bool, t0: int, p1: bool, t1: int, p2: bool, t2: int, p3: bool, t3: int, hf: bool, ft: int) -> bool:
    """
    Rebuilt stored values are written, then read back, before downstream use (normalising stores: read() returns
    ('norm', written)).  Orderings are decided on the physical plan (a happens-before b in EVERY schedule iff the real
    physical graph has a path a ~> b: engine contract C01) and cross-checked on the event log of the real run.

    pre: t0 != t1 and t0 != t2 and t0 != t3 and t1 != t2 and t1 != t3 and t2 != t3
    pre: ft != t0 and ft != t1 and ft != t2 and ft != t3
    pre: t0 < 1000000000 and t1 < 1000000000 and t2 < 1000000000 and t3 < 1000000000 and ft < 1000000000
    post: _
    """
    begin()
    sh = SHAPE
    P, TT = _state(p0, t0, p1, t1, p2, t2, p3, t3)
    if not W.consistent(sh, P, TT):
        return True  # not reachable by any history (chains of dependent sources)
    w = W.World(W.NOW)
    b = W.build(sh, w, P, TT, None, normalise=True)
    S = W.stale_oracle(sh, P, TT, hf, ft)
    calls, writes, reads = W.expected_events(sh, S, sh.out)
    if W.missing_needed(sh, P, S, calls, reads):
        return True  # a needed value is missing and cannot be rebuilt: a failing run (C05 covers it)
    ftv = W.FT(ft) if hf else None
    out_arg = b.nodes[sh.out] if sh.out is not None else None
    phys, onode = uberjob.run(b.plan, registry=b.reg, output=out_arg, dry_run=True, fresh_time=ftv, progress=None, max_workers=1)
    if any(k != "m" for k, _ in w.log):
        return False
    g = phys.graph
    idx = _phys_index(g, b, sh)
    if idx is None:
        return False
    wn, rn = idx
    executed = set(calls)
    # (1) exactly the rebuilt stored values have a write call; a read call exists exactly for the values some executed
    #     consumer / the output takes
    if sorted(wn) != writes or sorted(rn) != reads:
        return False
    for j in range(sh.n):
        if sh.roles[j] == "lit":
            continue  # a plain literal stays or is spliced out (dependency-only literals are pruned when that adds no edges)
        if sh.roles[j] == "slit":
            if (b.nodes[j] in g) != (j in writes):
                return False
            continue
        if (b.nodes[j] in g) != (j in executed and sh.roles[j] != "src"):
            return False
    for j in writes:
        # the write call takes the in-memory result of the call it stores
        args, _kw = uberjob.graph.get_argument_nodes(g, wn[j])
        if len(args) != 2 or args[1] is not b.nodes[j]:
            return False
        # (2) write(j) -> read(j): written, then read back
        if j in rn and not _reach(g, wn[j], rn[j]):
            return False
    # (3) every executed consumer takes the value from the read node under the same edge key; a node that merely
    #     depends on a rebuilt value waits for its write; nobody is wired to the in-memory result of a stored call
    for (i, j, kind) in sh.edges:
        if j not in executed and not (sh.roles[j] == "src" and S[j]):
            continue
        if not sh.registered[i]:
            continue
        tgt = b.nodes[j]
        if kind == "a":
            if i not in rn or not g.has_edge(rn[i], tgt) or (b.nodes[i] in g and g.has_edge(b.nodes[i], tgt)):
                return False
        elif i in wn:
            if sh.roles[j] == "src":
                # stale dependent source: it is its read-back that has to wait
                if j in rn and not _reach(g, wn[i], rn[j]):
                    return False
            elif not _reach(g, wn[i], tgt):
                return False
    # argument positions preserved: the consumer's argument list in the physical plan = read nodes / calls in order
    for j in executed:
        if sh.roles[j] == "src":
            continue
        args, _kw = uberjob.graph.get_argument_nodes(g, b.nodes[j])
        want = [rn.get(i) if sh.registered[i] else b.nodes[i] for i, k in sh.preds[j] if k == "a"]
        if len(args) != len(want) or any(x is not y for x, y in zip(args, want)):
            return False
    # (4) downstream rebuilt values are rebuilt after upstream ones
    for m in writes:
        for n in sh.near(m):
            if n in wn and not _reach(g, wn[n], wn[m]):
                return False
    # (5) an out-of-date dependent source is read only after the calls it depends on have run
    for s in range(sh.n):
        if sh.roles[s] == "src" and S[s] and s in rn:
            for p_, _k in sh.preds[s]:
                if sh.registered[p_]:
                    if p_ in wn and not _reach(g, wn[p_], rn[s]):
                        return False
                elif p_ not in executed or not _reach(g, b.nodes[p_], rn[s]):
                    return False
    # (7) effective dependencies are preserved transitively, also through literals and rebuilt / stale registered nodes:
    #     a ~> b in the logical plan along nodes that are unregistered or rebuilt  =>  "a is done" ~> "b begins" in the physical plan
    def last_of(a):
        return wn[a] if a in wn else (b.nodes[a] if a in executed else None)

    def first_of(t):
        if t in executed and sh.roles[t] in ("call", "store"):
            return b.nodes[t]
        if sh.roles[t] == "src" and S.get(t) and t in rn:
            return rn[t]
        if sh.roles[t] == "slit" and t in wn:
            return wn[t]
        return None

    for a in range(sh.n):
        la = last_of(a)
        if la is None:
            continue
        seen, todo = set(), [a]
        while todo:
            x = todo.pop()
            for (y, _k) in sh.succs[x]:
                if y in seen:
                    continue
                seen.add(y)
                ft_ = first_of(y)
                if ft_ is not None and ft_ is not la and not _reach(g, la, ft_):
                    return False
                if (not sh.registered[y]) or S.get(y):
                    todo.append(y)
    # (6) the output is the read node of a stored output
    if sh.out is not None:
        if sh.registered[sh.out]:
            if onode is not rn.get(sh.out):
                return False
        elif onode is not b.nodes[sh.out]:
            return False
    elif onode is not None:
        return False
    # ---- the real run: what consumers / the output receive is what read() returned
    try:
        out = W.run(b, sh, w, fresh_time=ftv)
    except uberjob.CallError:
        return False
    if sh.out is not None and out != b.scratch[sh.out]:
        return False
    for j in writes:
        if b.stores[j].val != b.scratch[j][1]:  # raw value computed from normalised inputs
            return False
    pos = {}
    for i_, ev_ in enumerate(w.log):
        pos.setdefault(ev_, i_)
    for j in writes:
        if ("w", j) not in pos or (j in reads and not (pos[("w", j)] < pos.get(("r", j), -1))):
            return False
        if sh.roles[j] == "store" and not (pos.get(("c", j), 1 << 30) < pos[("w", j)]):
            return False
    for (i, j, kind) in sh.edges:
        if j in executed and sh.roles[j] != "src" and sh.registered[i]:
            if kind == "a" and not (pos.get(("r", i), 1 << 30) < pos[("c", j)]):
                return False
            if kind == "d" and i in writes and not (pos[("w", i)] < pos[("c", j)]):
                return False
    return ok()
