"""E1 harness for C10, part 'retry' (and the sequential half of max_errors).

  c10_retry   the real create_retry(n) / _coerce_retry on a flaky callable that fails on its first j attempts with
              distinguishable exception objects: attempts made == min(j + 1, n); the result is the first success; on
              exhaustion the raised object IS the last attempt's exception; arguments are passed through unchanged on every
              attempt; n == 1 is the identity; exceptions outside exc_type are not retried.  n, j symbolic.
  c10_run     the real uberjob.run(retry=n | custom decorator) on a stored chain with symbolic store state: each call, each
              store read / write and each get_modified_time query fails on its first j_k attempts (symbolic per operation
              kind): every operation is attempted at most n times, attempts stop at the first success, an eventual success
              counts as success (the run's output and stored values are the from-scratch ones), the exhausted operation's
              CallError carries the LAST attempt's exception object, and nothing downstream of an exhausted operation ran.
              A custom decorator is used exactly as given (it sees every call function / store method).
Case split (environment): XH_RN (attempts n), XH_RK (which operation kind is flaky), XH_CUSTOM (0 | 1).
"""
import os

import world as W
from world import begin, ok

W.install_engine()
import uberjob  # noqa: E402
from uberjob._run import _coerce_retry  # noqa: E402
from uberjob._util.retry import create_retry, identity  # noqa: E402

CUSTOM = os.environ.get("XH_CUSTOM", "0") == "1"

try:  # CrossHair 0.0.110 makes functools.lru_cache a no-op under tracing; uberjob's caches (if any) are keyed by concrete
    # function objects here, so the real behaviour is wanted: take that patch out again
    import crosshair.core_and_libs  # noqa: F401
    from crosshair import core as _xc
    from functools import _lru_cache_wrapper

    _xc._PATCH_REGISTRATIONS.pop(_lru_cache_wrapper.__call__, None)
except Exception:  # pragma: no cover - plain concrete run
    pass


class Flaky(Exception):
    def __init__(self, op, attempt):
        super().__init__(op, attempt)
        self.op, self.attempt = op, attempt


class Other(BaseException):
    pass


def c10_retry(n: int, j: int, via_coerce: bool, other_at: int) -> bool:
    """
    pre: 1 <= n <= 4 and 0 <= j <= 5 and -1 <= other_at <= 5
    post: _
    """
    begin()
    calls = []

    def f(a, b=0, *rest, **kw):
        k = len(calls)
        calls.append((a, b, rest, tuple(sorted(kw.items()))))
        if k == other_at:
            raise Other()  # not an Exception: never retried
        if k < j:
            raise Flaky("f", k)
        return ("ok", k, a, b)

    dec = _coerce_retry(n) if via_coerce else create_retry(n)
    if n == 1 and dec is not identity:
        return False
    g = dec(f)
    if n == 1 and g is not f:
        return False
    try:
        r = g(7, b=8, z=9)
        raised = None
    except Flaky as e:
        raised = e
    except Other:
        raised = "other"
    for c in calls:
        if c != (7, 8, (), (("z", 9),)):
            return False
    if 0 <= other_at < min(j + 1, n):
        # the BaseException escapes at once
        return raised == "other" and len(calls) == other_at + 1 and ok()
    if raised == "other":
        return False
    want = min(j + 1, n)
    if len(calls) != want:
        return False
    if j < n:
        if raised is not None or r != ("ok", j, 7, 8):
            return False
    else:
        if raised is None or raised.attempt != n - 1:
            return False  # the exception of the LAST attempt
    return ok()


def c10_coerce(kind: int, n: int) -> bool:
    """
    _coerce_retry: None -> one attempt; an int -> create_retry(int); a callable -> used as given.

    pre: 0 <= kind <= 2 and 1 <= n <= 3
    post: _
    """
    begin()
    marker = []

    def custom(f):
        marker.append(f)
        return f

    arg = [None, n, custom][kind]
    dec = _coerce_retry(arg)
    if kind == 2:
        if dec is not custom:
            return False
        return ok()
    cnt = []

    def f():
        cnt.append(1)
        raise Flaky("f", len(cnt) - 1)

    try:
        dec(f)()
        return False
    except Flaky as e:
        want = 1 if kind == 0 else n
        if len(cnt) != want or e.attempt != want - 1:
            return False
    return ok()


# ----------------------------------------------------------------------------- retry inside a run
class FStore(uberjob.ValueStore):
    """In-memory store whose operations fail on their first `fail[kind]` attempts (per store)."""

    def __init__(self, name, present, t, val, world, fail):
        self.name, self.present, self.t, self.val, self.w = name, present, t, val, world
        self.fail = dict(fail)
        self.att = {"r": 0, "w": 0, "m": 0}

    def _flaky(self, kind):
        k = self.att[kind]
        self.att[kind] = k + 1
        self.w.log.append((kind, self.name, k))
        if k < self.fail.get(kind, 0):
            raise Flaky((kind, self.name), k)

    def read(self):
        self._flaky("r")
        if not self.present:
            raise W.Empty(self.name)
        return self.val

    def write(self, v):
        self._flaky("w")
        self.val, self.present, self.t = v, True, self.w.tick()

    def get_modified_time(self):
        self._flaky("m")
        return W.T(self.t) if self.present else None


RN = int(os.environ.get("XH_RN", "2"))  # attempts allowed (concrete per condition)
RK = os.environ.get("XH_RK", "c")  # which kind of operation is flaky: c(all) r(ead) w(rite) m(odified time)


def c10_run(j: int, p1: bool, p2: bool, t0: int, t1: int, t2: int) -> bool:
    """
    pre: 0 <= j <= 4
    pre: t0 != t1 and t0 != t2 and t1 != t2 and t0 < 1000000000 and t1 < 1000000000 and t2 < 1000000000
    post: _
    """
    begin()
    n = RN
    jc, jr, jw, jm = (j if RK == "c" else 0), (j if RK == "r" else 0), (j if RK == "w" else 0), (j if RK == "m" else 0)
    w = W.World(W.NOW)
    att = {1: 0, 2: 0}

    def mk(k):
        def f(x):
            a = att[k]
            att[k] = a + 1
            w.log.append(("c", k, a))
            if a < jc:
                raise Flaky(("c", k), a)
            return (k, x)

        f.__name__ = f.__qualname__ = f"f{k}"
        return f

    plan, reg = uberjob.Plan(), uberjob.Registry()
    fail = {"r": jr, "w": jw, "m": jm}
    s0 = FStore(0, True, t0, ("srcval", 0), w, fail)
    s1 = FStore(1, p1, t1, (1, ("srcval", 0)), w, fail)
    s2 = FStore(2, p2, t2, (2, (1, ("srcval", 0))), w, fail)
    n0 = reg.source(plan, s0)
    n1 = plan.call(mk(1), n0)
    reg.add(n1, s1)
    n2 = plan.call(mk(2), n1)
    reg.add(n2, s2)
    seen = []

    def custom(f):
        # a decorator with PER-DECORATION state (n attempts in the lifetime of one decoration): uberjob decorates once per call /
        # store operation / modified-time query, so every one of them must get a decoration -- and a budget -- of its own
        seen.append(f)
        budget = [n]

        def wrapper(*a, **k):
            while True:
                try:
                    return f(*a, **k)
                except Flaky:
                    budget[0] -= 1
                    if budget[0] <= 0:
                        raise

        return wrapper

    retry_arg = custom if CUSTOM else n
    try:
        out = uberjob.run(plan, registry=reg, output=n2, retry=retry_arg, progress=None, max_workers=1)
        err = None
    except uberjob.CallError as e:
        err = e
    # every operation: at most n attempts, consecutive attempt numbers, stop at the first success
    per = {}
    for ev in w.log:
        per.setdefault(ev[:2], []).append(ev[2])
    exhausted = None
    for key, atts in per.items():
        if atts != list(range(len(atts))):
            return False
        if len(atts) > n:
            return False
        j = jc if key[0] == "c" else fail[key[0]]
        if len(atts) != min(j + 1, n):
            return False
        if j >= n:
            exhausted = key if exhausted is None else exhausted
    if exhausted is None:
        if err is not None:
            return False
        if out != (2, (1, ("srcval", 0))):
            return False
        if not (s1.present and s1.val == (1, ("srcval", 0)) and s2.present and s2.val == (2, (1, ("srcval", 0)))):
            return False
    else:
        if err is None:
            return False
        c = err.__cause__
        if not isinstance(c, Flaky) or c.attempt != n - 1:
            return False  # the exception of the last attempt of the exhausted operation
        # exactly one operation is exhausted (the run stops there with max_errors=0): it is the one reported
        n_ex = sum(1 for key, atts in per.items() if (jc if key[0] == "c" else fail[key[0]]) >= n)
        if n_ex != 1 or c.op != exhausted:
            return False
    if CUSTOM and not seen:
        return False
    return ok()


def c10_limits(mw: int, smw: int, me: int, sk: int) -> bool:
    """
    run hands its limits to the engine unchanged: the stale check runs on a pool of stale_check_max_workers (default:
    max_workers) with the 'cheap' scheduler and no error tolerance, the run phase on max_workers with the caller's max_errors
    and scheduler; values below 1 (workers) / 0 (errors) and unknown schedulers are rejected before anything happens.
    Codes: mw, smw: 0 = None, k >= 1 = k, -1 = invalid 0;  me: -2 = invalid -1, -1 = None, k >= 0 = k;  sk: 0 None, 1 default, 2 random, 3 invalid.

    pre: -1 <= mw <= 4 and -1 <= smw <= 4 and -2 <= me <= 3 and 0 <= sk <= 3
    post: _
    """
    begin()
    w = W.World(W.NOW)
    plan, reg = uberjob.Plan(), uberjob.Registry()
    n1 = plan.call(W.mk_fn(1, w))
    reg.add(n1, W.LStore(1, False, 0, None, w))
    kw = {}
    mwv = None if mw == 0 else (0 if mw == -1 else mw)
    smwv = None if smw == 0 else (0 if smw == -1 else smw)
    mev = None if me == -1 else (-1 if me == -2 else me)
    skv = [None, "default", "random", "bogus"][sk]
    kw = {"max_workers": mwv, "stale_check_max_workers": smwv, "max_errors": mev, "scheduler": skv}
    del W.ENGINE_CALLS[:]
    invalid = mw == -1 or smw == -1 or me == -2 or sk == 3
    try:
        uberjob.run(plan, registry=reg, output=n1, progress=None, **kw)
    except ValueError:
        return invalid and not W.ENGINE_CALLS and not w.log and ok()
    if invalid:
        return False
    if len(W.ENGINE_CALLS) != 2:
        return False
    stale, runp = W.ENGINE_CALLS
    if stale["worker_count"] != (smwv if smwv is not None else mwv) or stale["scheduler"] != "cheap" or stale["max_errors"] != 0:
        return False
    if runp["worker_count"] != mwv or runp["max_errors"] != mev or runp["scheduler"] != skv:
        return False
    return ok()
