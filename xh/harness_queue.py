"""E1 lemma for C04 / C01 / C07: the ready-queue classes of uberjob._execution.scheduler honour the queue.Queue contract the
E2 engine model assumes ("put adds one item, get returns -- and removes -- some queued item, nothing is lost or duplicated,
unfinished_tasks counts puts minus task_done") and, for the default scheduler, the DONE-first rule (smallest priority first).

The real RandomQueue / PriorityQueue / create_simple_queue / create_queue run under CrossHair through their public Queue API
(put, get_nowait, qsize, task_done) on a symbolic operation sequence:
  * initial items and put items are symbolic ints (duplicates allowed: the contract is about multisets);
  * `random` in the scheduler module is a stub: randrange(n) returns the next symbolic draw (assumed 0 <= r < n, the
    documented contract of random.randrange), shuffle applies the permutation given by symbolic distinct ranks;
  * PriorityQueue priorities are symbolic ints per item (the real heapq C code compares the real KeyValuePair objects).
Case split (environment): XH_Q = random | priority | simple ; XH_NINIT = number of initial items (0..3) ; XH_OPS = operation
string over p(ut) / g(et), e.g. 'pgpg'.
"""
import os
import queue as queue_mod

import world as W  # noqa: F401
from world import begin, ok

import uberjob._execution.scheduler as S  # noqa: E402

import nxpatch  # noqa: E402

# networkx compiles some of its functions lazily with exec(): run the (concrete-graph) priority computation natively
S.greedy.get_priority_mapping = nxpatch.untraced(S.greedy.get_priority_mapping)

QKIND = os.environ.get("XH_Q", "random")
NINIT = int(os.environ.get("XH_NINIT", "2"))
OPS = os.environ.get("XH_OPS", "pgpg")


class RandomStub:
    def __init__(self, draws, ranks):
        self.draws, self.ranks, self.i, self.bad = list(draws), list(ranks), 0, False

    def randrange(self, *a):
        if len(a) == 1:
            lo, hi = 0, a[0]
        else:
            lo, hi = a[0], a[1]
        r = self.draws[self.i] if self.i < len(self.draws) else lo
        self.i += 1
        if not (lo <= r < hi):
            self.bad = True  # outside random.randrange's contract: the path is discarded by the harness
            return lo
        return r

    def randint(self, lo, hi):
        return self.randrange(lo, hi + 1)

    def shuffle(self, lst):
        n = len(lst)
        order = sorted(range(n), key=lambda j: self.ranks[j])
        lst[:] = [lst[j] for j in order]

    def random(self):
        return 0.5

    def choice(self, seq):
        return seq[self.randrange(len(seq))]


_REAL_RANDOM = S.random


def _remove_one(ref, x):
    for i in range(len(ref)):
        if ref[i] == x:
            del ref[i]
            return True
    return False


def c04_queue(i0: int, i1: int, i2: int, x0: int, x1: int, x2: int, x3: int, d0: int, d1: int, d2: int, d3: int,
              k0: int, k1: int, k2: int, p0: int, p1: int, p2: int, p3: int, p4: int, p5: int, p6: int) -> bool:
    """
    pre: k0 != k1 and k0 != k2 and k1 != k2
    post: _
    """
    begin()
    init = [i0, i1, i2][:NINIT]
    puts = [x0, x1, x2, x3]
    prio_vals = [p0, p1, p2, p3, p4, p5, p6]
    stub = RandomStub([d0, d1, d2, d3], [k0, k1, k2])
    S.random = stub
    try:
        # priorities: the j-th item that ever enters the queue gets prio_vals[j] (items are compared by value in the reference)
        entered = []

        def priority(item):
            for (it, pr) in entered:
                if it is item:
                    return pr
            return 0

        class Box:  # distinct objects so that priorities attach to queue entries, values may repeat
            __slots__ = ("v",)

            def __init__(self, v):
                self.v = v

        boxes = [Box(v) for v in init]
        for b in boxes:
            entered.append((b, prio_vals[len(entered)]))
        if QKIND == "random":
            q = S.RandomQueue(boxes)
        elif QKIND == "priority":
            q = S.PriorityQueue(boxes, priority)
        else:
            q = S.create_simple_queue(boxes)
        ref = list(boxes)
        unfinished = len(boxes)
        if q.qsize() != len(ref) or q.unfinished_tasks != unfinished:
            return False
        pi = 0
        for op in OPS:
            if op == "p":
                b = Box(puts[pi])
                pi += 1
                entered.append((b, prio_vals[len(entered)]))
                q.put(b)
                ref.append(b)
                unfinished += 1
            else:
                try:
                    got = q.get_nowait()
                except queue_mod.Empty:
                    if ref:
                        return False
                    continue
                if not ref:
                    return False
                found = False
                for j in range(len(ref)):
                    if ref[j] is got:
                        del ref[j]
                        found = True
                        break
                if not found:
                    return False  # an item that is not queued (lost earlier, or handed out twice)
                if QKIND == "priority":
                    for r in ref:  # DONE-first rule: nothing with a smaller priority stays behind
                        if priority(r) < priority(got):
                            return False
                if QKIND == "simple" and False:
                    pass
                q.task_done()
                unfinished -= 1
            if stub.bad:
                return True  # a draw outside randrange's contract: not a real execution
            if q.qsize() != len(ref) or q.unfinished_tasks != unfinished:
                return False
        # drain: exactly the reference multiset comes out
        while True:
            try:
                got = q.get_nowait()
            except queue_mod.Empty:
                break
            found = False
            for j in range(len(ref)):
                if ref[j] is got:
                    del ref[j]
                    found = True
                    break
            if not found:
                return False
        if stub.bad:
            return True
        if ref:
            return False
    finally:
        S.random = _REAL_RANDOM
    return ok()


def _f(*a):
    return 0


def c04_create_queue(kind: int, n: int) -> bool:
    """
    create_queue dispatch: the queue holds exactly the initial items, unfinished_tasks == their number, and with the
    default scheduler an object that is not a node of the graph (the DONE sentinel) comes out before every node.

    pre: 0 <= kind <= 4 and 0 <= n <= 3
    post: _
    """
    begin()
    import networkx as nx

    import uberjob
    from uberjob.graph import Call

    plan = uberjob.Plan()
    nodes = []
    for j in range(3):
        nodes.append(plan.call(_f, *(nodes[-1:])))
    g = plan.graph
    init = [nodes[j] for j in range(3) if j < n]
    nn = len(init)
    name = [None, "default", "random", "cheap", "bogus"][kind]
    S.random = RandomStub([0, 1, 0, 0], [2, 0, 1])
    try:
        q = S.create_queue(g, init, name)
    except ValueError:
        return kind == 4 and ok()
    finally:
        S.random = _REAL_RANDOM
    if kind == 4:
        return False
    if q.qsize() != nn or q.unfinished_tasks != nn:
        return False
    sentinel = object()
    q.put(sentinel)
    if kind in (0, 1):
        if q.get_nowait() is not sentinel:
            return False
        rest = nn
    else:
        rest = nn + 1
    out = []
    for _ in range(rest):
        out.append(q.get_nowait())
    want = list(init) + ([] if kind in (0, 1) else [sentinel])
    for w in want:
        hit = [j for j in range(len(out)) if out[j] is w]
        if len(hit) != 1:
            return False
    if q.qsize() != 0:
        return False
    return ok()


def c04_prepare(m01: int, m02: int, m12: int, m03: int, m13: int, m23: int) -> bool:
    """
    The engine model takes prepare_nodes in closed form: source nodes = no predecessor, single-parent nodes = exactly one
    DISTINCT predecessor, remaining-predecessor count = number of distinct predecessors (>= 2) -- and graph.successors(n) yields
    each distinct successor once.  The real prepare_nodes / predecessor_count on a MultiDiGraph with symbolic edge
    multiplicities (parallel edges of mixed kinds: positional, keyword, plain dependency).

    pre: 0 <= m01 <= 2 and 0 <= m02 <= 2 and 0 <= m12 <= 2 and 0 <= m03 <= 2 and 0 <= m13 <= 2 and 0 <= m23 <= 2
    post: _
    """
    begin()
    from uberjob._execution.run_function_on_graph import prepare_nodes
    from uberjob._util.networkx_util import predecessor_count
    from uberjob.graph import Dependency, Graph, KeywordArg, PositionalArg

    mult = {(0, 1): m01, (0, 2): m02, (1, 2): m12, (0, 3): m03, (1, 3): m13, (2, 3): m23}

    class Nd:
        def __init__(self, i):
            self.i = i

    nodes = [Nd(i) for i in range(4)]
    g = Graph()
    for n in nodes:
        g.add_node(n)
    for (i, j), m in mult.items():
        for k in range(3):
            if k < m:
                g.add_edge(nodes[i], nodes[j], [PositionalArg(i), KeywordArg("k", i), Dependency()][(k + j) % 3])
    preds = {j: [i for i in range(4) if mult.get((i, j), 0) > 0] for j in range(4)}
    succs = {i: [j for j in range(4) if mult.get((i, j), 0) > 0] for i in range(4)}
    # an earlier run in the same process, over the SAME node objects with other edges (a plan that was extended and run again):
    # nothing of it may leak into this call's result (every call returns containers of its own)
    g0 = Graph()
    for n in nodes:
        g0.add_node(n)
    for (i, j) in ((0, 1), (1, 2), (0, 3), (2, 3)):
        g0.add_edge(nodes[i], nodes[j], Dependency())
    first = prepare_nodes(g0)
    src, single, remaining = prepare_nodes(g)
    if any(a is b for a, b in zip(first, (src, single, remaining))):
        return False
    if [n.i for n in src] != [j for j in range(4) if not preds[j]]:
        return False
    if sorted(n.i for n in single) != [j for j in range(4) if len(preds[j]) == 1]:
        return False
    if sorted((n.i, c) for n, c in remaining.items()) != [(j, len(preds[j])) for j in range(4) if len(preds[j]) >= 2]:
        return False
    for j in range(4):
        if predecessor_count(g, nodes[j]) != len(preds[j]):
            return False
        if sorted(n.i for n in g.successors(nodes[j])) != succs[j] or len(list(g.successors(nodes[j]))) != len(succs[j]):
            return False
    return ok()
