"""E1 lemma for C06, the glue above the engine: run_physical.process -> NodeError -> _run.run -> CallError.

The E2 model establishes which NodeError the engine raises (it names a failed node and carries that node's exception; with
one worker the first failure).  What the user sees is produced above the engine: `process` wraps an Exception into
NodeError(node) from exception (a BaseException that is not an Exception bypasses `process` and is wrapped by the engine's
coerce_node_error), and run() turns NodeError into CallError(e.node) from e.__cause__.  On the sequential stand-in (which
uses the real coerce_node_error), with the failing calls and the kind of exception symbolic:

  * run raises CallError iff some executed call raised, otherwise returns the from-scratch value;
  * CallError.call IS the symbolic call that raised first (sequential order), and it is a call that actually raised;
  * CallError.__cause__ IS the very exception object that call raised (identity), for Exception and BaseException subclasses;
  * nothing downstream of the failed call started; calls not needed for the output never run, so their failures do not matter;
  * with a registry the same holds for failures inside store read / write / get_modified_time (CallError.call is the
    read / write call of that store resp. the examined node).
Case split (environment): XH_ESHAPE (chain3 | fork3 | join3), XH_EREG (0 | 1).
"""
import os
import sys

import world as W
from world import begin, ok

W.install_engine()
import uberjob  # noqa: E402

ESHAPE = os.environ.get("XH_ESHAPE", "chain3")
EREG = os.environ.get("XH_EREG", "0") == "1"
SRC_DIR = os.environ.get("VERIF_SRC", "/repo/src")
HAND = os.environ.get("XH_EHAND", "0") == "1"  # a transform_physical hook inserts a hand-built graph.Call (stack_frame=None) that fails
BADREPR = os.environ.get("XH_EBADREPR", "0") == "1"  # the failing callables have a __repr__ that raises
EDGES = {"chain3": [(0, 1), (1, 2)], "fork3": [(0, 1), (0, 2)], "join3": [(0, 2), (1, 2)], "indep3": []}[ESHAPE]


class UserError(Exception):
    pass


class UserBase(BaseException):
    pass


def c06_error(f0: bool, f1: bool, f2: bool, base: bool, out_sel: int, sf: int) -> bool:
    """
    f_j: call j raises; base: the exception is a BaseException that is not an Exception; out_sel: requested output (0..2, 3 =
    list of all); sf (registry runs): which store operation raises instead: 0 none, 1 write of store 1, 2 read-back of store 1,
    3 get_modified_time of store 1.

    pre: 0 <= out_sel <= 3 and 0 <= sf <= 3
    post: _
    """
    begin()
    if not EREG and sf != 0:
        return True
    fails = [f0, f1, f2]
    w = W.World(W.NOW)
    raised = {}
    started = []

    def mk(j):
        def f(*a):
            started.append(j)
            if fails[j]:
                e = UserBase(j) if base else UserError(j)
                raised[j] = e
                raise e
            return (j,) + a

        f.__name__ = f.__qualname__ = f"f{j}"
        if BADREPR:
            class Loader:  # a callable object whose repr raises (e.g. it formats an attribute that is not set yet)
                __name__ = __qualname__ = f"f{j}"

                def __call__(self, *a):
                    return f(*a)

                def __repr__(self):
                    # raises for uberjob (and anybody else) -- but not for CrossHair's own diagnostics, which also repr() values
                    # raises whenever the harness' run is in progress (uberjob formatting a node) -- not when CrossHair itself reprs
                    # values after the call (its state reconciliation), which would abort the analysis instead of failing the run
                    fr = sys._getframe(1)
                    while fr is not None:
                        if fr.f_code.co_name == "c06_error":
                            raise RuntimeError("repr of an unopened loader")
                        fr = fr.f_back
                    return "<Loader>"

            return Loader()
        return f

    plan = uberjob.Plan()
    nodes = []
    for j in range(3):
        nodes.append(plan.call(mk(j), *[nodes[i] for (i, jj) in EDGES if jj == j]))
    reg = None
    store_exc = {}
    if EREG:
        reg = uberjob.Registry()

        class S1(W.LStore):
            def write(self, v):
                if sf == 1:
                    e = UserBase("w") if base else UserError("w")
                    store_exc["w"] = e
                    raise e
                return W.LStore.write(self, v)

            def read(self):
                if sf == 2:
                    e = UserBase("r") if base else UserError("r")
                    store_exc["r"] = e
                    raise e
                return W.LStore.read(self)

            def get_modified_time(self):
                if sf == 3:
                    e = UserBase("m") if base else UserError("m")
                    store_exc["m"] = e
                    raise e
                return W.LStore.get_modified_time(self)

        st1 = S1(1, False, 0, None, w)
        reg.add(nodes[1], st1)
    out = [nodes[0], nodes[1], nodes[2]] if out_sel == 3 else nodes[out_sel]
    outs = [0, 1, 2] if out_sel == 3 else [out_sel]
    reach = {(i, j) for (i, j) in EDGES}
    for k in range(3):
        for (a, b_) in list(reach):
            for (c, d) in list(reach):
                if b_ == c:
                    reach.add((a, d))
    needed = sorted(j for j in range(3) if j in outs or any((j, o) in reach for o in outs))
    if EREG and 1 not in needed:
        needed = sorted(set(needed) | {1} | {i for (i, j) in reach if j == 1})  # a stale stored value is rebuilt whatever the output
    kw = {}
    hand = {}
    if HAND:
        from uberjob.graph import Call, PositionalArg

        def tp(pplan, onode):
            # a validation call built by hand (documented constructor, stack_frame=None), fed by the output node
            if onode is None:
                return pplan, onode
            def check(v):
                started.append("hand")
                if f2:
                    e = UserBase("hand") if base else UserError("hand")
                    raised["hand"] = e
                    raise e
                return v
            c = Call(check)
            pplan.graph.add_node(c)
            pplan.graph.add_edge(onode, c, PositionalArg(0))
            hand["node"] = c
            return pplan, c

        kw["transform_physical"] = tp
    try:
        res = uberjob.run(plan, registry=reg, output=out, progress=None, max_workers=1, **kw)
        err = None
    except uberjob.CallError as e:
        err = e
    except (UserError, UserBase):
        return False  # a raw user exception must never escape run()
    except Exception:
        return False  # nor anything else (e.g. an error raised while the failure was being reported)
    if HAND:
        # the hand-built call: when it is the one that failed, CallError.call is that very node and the cause the very object
        hs = [x for x in started if x == "hand"]
        started[:] = [x for x in started if x != "hand"]
        if "hand" in raised:
            if err is None or err.call is not hand.get("node") or err.__cause__ is not raised["hand"]:
                return False
            return ok()
        if len(hs) > 1:
            return False
    # what ran: only needed calls, each at most once, never downstream of a failed call
    if len(set(started)) != len(started) or any(j not in needed for j in started):
        return False
    for j in started:
        if any(i in raised for i in range(3) if (i, j) in reach):
            return False
    store_failed = bool(store_exc)
    if not raised and not store_failed:
        if err is not None:
            return False
        if sorted(started) != needed:
            return False
        return ok()
    if err is None:
        return False
    cause = err.__cause__
    if raised and (not store_failed or cause in raised.values()):
        # a call failed first: with one worker exactly one call raised (everything stops after it)
        if len(raised) != 1:
            return False
        (j, e), = raised.items()
        if err.call is not nodes[j] or cause is not e:
            return False
        if started[-1] != j:
            return False
        return ok()
    # a store operation failed (registry runs): the cause is that very exception object
    (kind, e), = store_exc.items()
    if cause is not e:
        return False
    c = err.call
    if kind == "m":
        if c is not nodes[1] or started:
            return False  # the examined node; the stale check fails before anything runs
    else:
        if getattr(c.fn, "__name__", "") != {"w": "write", "r": "read"}[kind]:
            return False
    return ok()
