"""E1 harnesses for C13 (run / dry_run / render never modify the caller's Plan or Registry; copies are independent)
and C14 (a dry run touches nothing and returns a faithful, self-contained physical plan).

Real uberjob on the sequential engine stand-in (xh/world.py).  Symbolic: store state (present flags, modified times,
fresh_time), dry_run, the op index at which a store/call operation raises, option selectors.  Concrete case split
(environment): plan shape, registry kind, output kind, cut index of the run phase, render plan.

Stubs / instruments defined here (all listed in the evidence, all validated concretely by `selfcheck()`):
  snapshot       structural snapshot of a Plan (graph object identity, node objects in order, per node: type, scope,
                 fn/value/stack_frame identity, attribute dict; edges in order with keys and data; per-node predecessor
                 order; graph attributes; plan._scope) and of a Registry (mapping identity; per entry in order: node,
                 RegistryValue object, value_store, is_source, stack_frame identities)
  write guard    (a) the mutating methods of the caller's graph OBJECT, of the Plan object and of the Registry object are
                 shadowed by instance attributes that record the hit and raise; (b) the storage dicts of that graph
                 (_node, _adj/_succ, _pred and the nested adjacency / key / attribute dicts, graph.graph) and
                 registry.mapping are replaced by dict subclasses with the same content that record + raise on any
                 mutation while armed.  Reads are unaffected.
"""
import copy as _copy
import os
import sys

import world as W
from world import begin, ok

W.install_engine()
import nxpatch  # noqa: E402
import uberjob  # noqa: E402
from uberjob._errors import NotTransformedError  # noqa: E402
from uberjob.graph import Call, Literal  # noqa: E402

SHAPE = W.shape_from_env() if os.environ.get("XH_SHAPE") else None
REG = os.environ.get("XH_REG", "full")  # full | none | empty   (c13_run_reg always uses the full registry)
OUT = os.environ.get("XH_OUT", "shape")  # shape (the shape's own output: a node or None) | none | struct
CUT = int(os.environ.get("XH_CUT", "-1"))  # concrete cut index (run-phase case split); -1 none
CUTMODE = os.environ.get("XH_CUTMODE", "none")  # none | stale (symbolic index among the modified-time queries) | fixed
CUT_KIND = os.environ.get("XH_CUT_KIND", "raise")  # raise: an Exception; die: a BaseException (as KeyboardInterrupt)
DRY = os.environ.get("XH_DRY", "0") == "1"
SCOPED = os.environ.get("XH_SCOPED", "1") == "1"
TP = os.environ.get("XH_TP", "0") in ("1", "2")  # C14: pass a transform_physical callback that rewrites the plan
TP_COPY = os.environ.get("XH_TP", "0") == "2"  # ... and returns a transformed COPY instead of working in place
RPLAN = os.environ.get("XH_RPLAN", "scoped")  # render: which plan
VERBOSE = os.environ.get("XH_VERBOSE", "1") == "1"
SWAP = os.environ.get("XH_SWAP", "0") == "1"  # C14: the dry run and the real run are scheduled differently (stand-in order lifo vs fifo)
EXTRA = os.environ.get("XH_EXTRA", "0") == "1"  # the registry also holds an entry for a node that is not in the plan being run


def _tracing():
    return nxpatch.NoTracing is not None and nxpatch.is_tracing()


def _fail(reason):
    """Property violated on this input.  Outside CrossHair (replay, sanity sweep) say why."""
    if VERBOSE and not _tracing():
        print("harness_imm: property violated: " + str(reason), file=sys.stderr)
    return False


# ============================================================================================ snapshot
@nxpatch.untraced
def snap_plan(plan):
    g = plan.graph
    nodes = []
    for n, d in g.nodes(data=True):
        nodes.append((n, type(n), n.scope, type(n.scope), getattr(n, "fn", None), getattr(n, "value", None),
                      getattr(n, "stack_frame", None), tuple(d.items())))
    edges = [(u, v, k, tuple(d.items())) for u, v, k, d in g.edges(keys=True, data=True)]
    preds = [tuple((u, tuple(kd)) for u, kd in g.pred[n].items()) for n in g.nodes()]
    return {"plan": plan, "graph": g, "scope": plan._scope, "nodes": nodes, "edges": edges, "preds": preds,
            "gattr": tuple(g.graph.items())}


def _same_seq(a, b, ident):
    """Element-wise comparison of two snapshot rows; positions listed in `ident` by identity, the rest by == and type."""
    if len(a) != len(b):
        return False
    for i in range(len(a)):
        if i in ident:
            if a[i] is not b[i]:
                return False
        elif type(a[i]) is not type(b[i]) or a[i] != b[i]:
            return False
    return True


@nxpatch.untraced
def diff_plan(s0, s1):
    """None if the two plan snapshots are the same structure made of the same objects, else a reason."""
    if s0["plan"] is not s1["plan"]:
        return "different Plan object"
    if s0["graph"] is not s1["graph"]:
        return "plan.graph rebound"
    if s0["scope"] != s1["scope"]:
        return "plan._scope changed"
    if len(s0["nodes"]) != len(s1["nodes"]):
        return f"node count {len(s0['nodes'])} -> {len(s1['nodes'])}"
    for a, b in zip(s0["nodes"], s1["nodes"]):
        if not _same_seq(a, b, (0, 1, 3, 4, 5, 6)):
            return f"node row changed: {a!r} -> {b!r}"
    if len(s0["edges"]) != len(s1["edges"]):
        return f"edge count {len(s0['edges'])} -> {len(s1['edges'])}"
    for a, b in zip(s0["edges"], s1["edges"]):
        if not _same_seq(a, b, (0, 1)):
            return f"edge row changed: {a!r} -> {b!r}"
    if len(s0["preds"]) != len(s1["preds"]):
        return "pred rows"
    for a, b in zip(s0["preds"], s1["preds"]):
        if len(a) != len(b):
            return "predecessor row length changed"
        for (u0, k0), (u1, k1) in zip(a, b):
            if u0 is not u1 or k0 != k1:
                return "predecessor order / keys changed"
    if s0["gattr"] != s1["gattr"]:
        return "graph attributes changed"
    return None


@nxpatch.untraced
def snap_reg(reg):
    return {"reg": reg, "mapping": reg.mapping,
            "rows": [(n, rv, rv.value_store, rv.is_source, rv.stack_frame) for n, rv in reg.mapping.items()]}


@nxpatch.untraced
def diff_reg(s0, s1):
    if s0["reg"] is not s1["reg"]:
        return "different Registry object"
    if s0["mapping"] is not s1["mapping"]:
        return "registry.mapping rebound"
    if len(s0["rows"]) != len(s1["rows"]):
        return f"registry size {len(s0['rows'])} -> {len(s1['rows'])}"
    for a, b in zip(s0["rows"], s1["rows"]):
        if not _same_seq(a, b, (0, 1, 2, 3, 4)):
            return f"registry row changed: {a!r} -> {b!r}"
    return None


@nxpatch.untraced
def structure_plan(plan):
    """Identity-free part of a snapshot, for 'the copy has the same structure as the original'."""
    s = snap_plan(plan)
    return ([r[:1] + r[1:3] + r[4:] for r in s["nodes"]], s["edges"], s["preds"], s["gattr"])


@nxpatch.untraced
def same_structure(a, b):
    (n0, e0, p0, g0), (n1, e1, p1, g1) = a, b
    if len(n0) != len(n1) or len(e0) != len(e1):
        return False
    for x, y in zip(n0, n1):
        if x[0] is not y[0] or x[1] is not y[1] or x[2] != y[2] or x[3] is not y[3] or x[4] is not y[4] \
                or x[5] is not y[5] or x[6] != y[6]:
            return False
    for x, y in zip(e0, e1):
        if x[0] is not y[0] or x[1] is not y[1] or type(x[2]) is not type(y[2]) or x[2] != y[2] or x[3] != y[3]:
            return False
    return g0 == g1


# ============================================================================================ write guard
class GuardHit(Exception):
    pass


class Guard:
    def __init__(self):
        self.armed = False
        self.hits = []
        self._shadowed = []

    def hit(self, what):
        self.hits.append(what)
        raise GuardHit(what)

    def disarm(self):
        self.armed = False
        for obj, name in self._shadowed:
            obj.__dict__.pop(name, None)
        self._shadowed = []

    def shadow(self, obj, names, tag):
        """Instance attributes that shadow the (mutating) methods of THIS object only."""
        for name in names:
            if hasattr(type(obj), name):
                obj.__dict__[name] = self._raiser(f"{tag}.{name}")
                self._shadowed.append((obj, name))

    def _raiser(self, what):
        def blocked(*a, **k):
            if self.armed:
                self.hit(what)
            raise AssertionError("guard shadow left behind after disarm: " + what)

        return blocked


class GDict(dict):
    """dict that records + raises on any mutation while its guard is armed (content and read behaviour of a dict)."""

    __slots__ = ("_g", "_tag")

    def _chk(self, op):
        if self._g.armed:
            self._g.hit(f"{self._tag}:{op}")

    def __setitem__(self, k, v):
        self._chk("setitem")
        dict.__setitem__(self, k, v)

    def __delitem__(self, k):
        self._chk("delitem")
        dict.__delitem__(self, k)

    def pop(self, *a):
        self._chk("pop")
        return dict.pop(self, *a)

    def popitem(self):
        self._chk("popitem")
        return dict.popitem(self)

    def clear(self):
        self._chk("clear")
        dict.clear(self)

    def update(self, *a, **k):
        self._chk("update")
        dict.update(self, *a, **k)

    def setdefault(self, k, d=None):
        if k not in self:
            self._chk("setdefault")
        return dict.setdefault(self, k, d)

    def __ior__(self, o):
        self._chk("ior")
        dict.update(self, o)
        return self


GRAPH_MUTATORS = ("add_node", "add_nodes_from", "remove_node", "remove_nodes_from", "add_edge", "add_edges_from",
                  "add_weighted_edges_from", "remove_edge", "remove_edges_from", "update", "clear", "clear_edges")
PLAN_MUTATORS = ("call", "_call", "lit", "add_dependency", "unpack", "scope")  # every one of them always writes
REGISTRY_MUTATORS = ("add", "source")
_VIEW_CACHE = ("adj", "succ", "pred", "nodes", "edges", "in_edges", "out_edges", "degree", "in_degree", "out_degree")


@nxpatch.untraced
def _freeze_graph(g, guard):
    memo = {}
    keep = []

    def conv(d, depth, tag):
        if id(d) in memo:
            return memo[id(d)]
        nd = GDict()
        nd._g, nd._tag = guard, tag
        memo[id(d)] = nd
        keep.append(d)
        for k, v in d.items():
            dict.__setitem__(nd, k, conv(v, depth - 1, tag + "[]") if depth > 0 else v)
        return nd

    node = conv(g._node, 1, "graph._node")
    adj = conv(g._adj, 3, "graph._adj")
    pred = conv(g._pred, 3, "graph._pred")
    gattr = conv(g.graph, 0, "graph.graph")
    g._node, g._adj, g._succ, g._pred, g.graph = node, adj, adj, pred, gattr
    for name in _VIEW_CACHE:  # networkx caches view objects that hold the old dicts
        g.__dict__.pop(name, None)


@nxpatch.untraced
def guard_plan(plan, guard):
    _freeze_graph(plan.graph, guard)
    guard.shadow(plan.graph, GRAPH_MUTATORS, "graph")
    guard.shadow(plan, PLAN_MUTATORS, "plan")


@nxpatch.untraced
def guard_registry(reg, guard):
    m = GDict()
    m._g, m._tag = guard, "registry.mapping"
    for k, v in reg.mapping.items():
        dict.__setitem__(m, k, v)
    reg.mapping = m
    guard.shadow(reg, REGISTRY_MUTATORS, "registry")


# ============================================================================================ building blocks
PRESENT = os.environ.get("XH_PRESENT")  # optional case split of the present flags, e.g. "01??" ('?': stays symbolic)


def _state(p0, t0, p1, t1, p2, t2, p3, t3):
    P = [p0, p1, p2, p3][: SHAPE.n]
    if PRESENT:
        P = [P[j] if PRESENT[j] == "?" else PRESENT[j] == "1" for j in range(SHAPE.n)]
    return P, [t0, t1, t2, t3][: SHAPE.n]


def _counts(log, kind):
    d = {}
    for k, n in log:
        if k == kind:
            d[n] = d.get(n, 0) + 1
    return d


def scope_for(j):
    return ("g%d" % (j % 2), "in") if j % 3 else ("g%d" % (j % 2),)


def assign_scopes(b):
    """Give the logical nodes non-empty scopes: the state `with plan.scope(...)` produces (validated in selfcheck)."""
    if SCOPED:
        for j, n in enumerate(b.nodes):
            n.scope = scope_for(j)


def output_spec(b, sh, kind):
    """The `output` argument: the shape's own node / None / a nested structure of nodes and constants."""
    if kind == "none":
        return None
    if kind == "const":
        return 7  # a plain constant: no symbolic node in the requested output
    if kind.startswith("inner"):
        return b.nodes[int(kind[5:])]  # an inner node: the requested output also feeds nodes further down (which run if out of date)
    if kind == "struct":
        last = b.nodes[sh.n - 1]
        first = b.nodes[sh.out if sh.out is not None else 0]
        return [first, {"k": (last, 7)}, 5]
    return b.nodes[sh.out] if sh.out is not None else None


class Outcome:
    def __init__(self):
        self.kind = None
        self.result = None
        self.tag = None


def call_run(out, plan, **kw):
    """uberjob.run; classify the outcome.  Returns an Outcome, or a str (reason) for an outcome no run may have."""
    o = Outcome()
    try:
        o.result = uberjob.run(plan, progress=None, max_workers=1, **kw)
        o.kind = "ok"
    except uberjob.CallError as e:
        c = e.__cause__
        if isinstance(c, (W.Cut, W.Die)):
            o.kind, o.tag = "cut", c.args[0]
        elif isinstance(c, W.Empty):
            o.kind = "empty"
        elif isinstance(c, NotTransformedError):
            o.kind = "not_transformed"
        else:
            return f"run raised CallError caused by {c!r}"
    except Exception as e:
        return f"run raised {e!r}"
    return o


def _unchanged(guard, checks):
    """disarm, then: no guard hit and every (snapshot-before, snapshot-fn, diff-fn, obj) unchanged."""
    guard.disarm()
    if guard.hits:
        return "write guard hit: " + ", ".join(guard.hits)
    for before, snap, diff, obj, label in checks:
        r = diff(before, snap(obj))
        if r is not None:
            return f"{label}: {r}"
    return None


# ============================================================================================ C13: run with a registry
def c13_run_reg(p0: bool, t0: int, p1: bool, t1: int, p2: bool, t2: int, p3: bool, t3: int, hf: bool, ft: int,
                cut: int) -> bool:
    """
    run / dry_run (XH_DRY) with the full registry on a symbolic store state, optionally failing at an operation:
    XH_CUTMODE=stale: the `cut`-th store operation raises, cut symbolic among the first R (= number of registered nodes)
    operations -- these are the get_modified_time queries of the stale check; XH_CUTMODE=fixed: operation XH_CUT raises
    (run phase case split); none: no injected failure (a missing pure source still fails the run).

    pre: t0 != t1 and t0 != t2 and t0 != t3 and t1 != t2 and t1 != t3 and t2 != t3
    pre: ft != t0 and ft != t1 and ft != t2 and ft != t3
    pre: t0 < 1000000000 and t1 < 1000000000 and t2 < 1000000000 and t3 < 1000000000 and ft < 1000000000
    pre: 0 <= cut < 4
    post: _
    """
    begin()
    sh = SHAPE
    P, TT = _state(p0, t0, p1, t1, p2, t2, p3, t3)
    nreg = sum(1 for r in sh.registered if r)
    if CUTMODE == "stale":
        if cut >= nreg:
            return True
        k = cut
    elif CUTMODE == "fixed":
        k = CUT
    else:
        k = -1
    w = W.World(W.NOW, k, CUT_KIND)
    b = W.build(sh, w, P, TT)
    assign_scopes(b)
    out = output_spec(b, sh, OUT)
    if EXTRA:
        # one registry shared by this plan and a larger one (e.g. an extended Plan.copy): an entry for a node this plan does not have
        other = uberjob.Plan()
        b.reg.add(other.call(W.mk_fn("x", w)), W.LStore("x", False, 0, None, w))
    g = Guard()
    guard_plan(b.plan, g)
    guard_registry(b.reg, g)
    s_plan, s_reg = snap_plan(b.plan), snap_reg(b.reg)  # snapshot of the guarded (same content) objects
    g.armed = True
    o = call_run(out, b.plan, registry=b.reg, output=out, dry_run=DRY, fresh_time=W.FT(ft) if hf else None)
    r = _unchanged(g, [(s_plan, snap_plan, diff_plan, b.plan, "plan"), (s_reg, snap_reg, diff_reg, b.reg, "registry")])
    if r is not None:
        return _fail(r)
    if EXTRA and isinstance(o, str):
        return ok()  # however run treats the foreign entry (the pinned source rejects it with an error): succeeding or failing, nothing changed
    if isinstance(o, str):
        return _fail(o)
    if o.kind == "not_transformed":
        return _fail("source placeholder executed although the registry was passed")
    if CUTMODE == "stale":
        if o.kind != "cut":
            return True  # fewer than cut+1 operations on this path (covered by the uncut conditions)
        if DRY and o.tag[0] != "m":
            return _fail(f"dry run performed store/call operation {o.tag!r}")
    elif CUTMODE == "fixed":
        if o.kind != "cut":
            return True
    else:
        if o.kind == "cut":
            return _fail("cut without a cut index")
        if DRY and o.kind != "ok":
            return _fail(f"dry run failed: {o.kind}")
    return ok()


# ============================================================================================ C13: run without / with an EMPTY registry
def c13_run_noreg(empty: bool, osel: int, dry: bool, cut: int) -> bool:
    """
    run / dry_run with registry=None or an EMPTY Registry object (len 0: falsy), output None / node / structure,
    a call raising at a symbolic operation index (cut = -1: none).  The registry that was used to build the plan is
    NOT passed (it must stay unchanged as well); plans with source nodes then fail with NotTransformedError: one more
    failing-run case.

    pre: 0 <= osel <= 2
    pre: -1 <= cut < 4
    post: _
    """
    begin()
    sh = SHAPE
    w = W.World(W.NOW, cut)
    b = W.build(sh, w, [True] * sh.n, [10, 20, 30, 40][: sh.n])
    assign_scopes(b)
    kind = "none" if osel == 0 else ("shape" if osel == 1 else "struct")
    out = output_spec(b, sh, kind)
    passed = uberjob.Registry() if empty else None
    g = Guard()
    guard_plan(b.plan, g)
    guard_registry(b.reg, g)
    checks = [(snap_plan(b.plan), snap_plan, diff_plan, b.plan, "plan"),
              (snap_reg(b.reg), snap_reg, diff_reg, b.reg, "registry (not passed)")]
    if passed is not None:
        guard_registry(passed, g)
        checks.append((snap_reg(passed), snap_reg, diff_reg, passed, "empty registry"))
    g.armed = True
    o = call_run(out, b.plan, registry=passed, output=out, dry_run=dry)
    r = _unchanged(g, checks)
    if r is not None:
        return _fail(r)
    if isinstance(o, str):
        return _fail(o)
    if passed is not None and len(passed) != 0:
        return _fail("empty registry no longer empty")
    if o.kind == "empty":
        return _fail("a store was read although no registry was passed")
    if dry and o.kind != "ok":
        return _fail(f"dry run failed: {o.kind}")
    if any(k in ("m", "r", "w") for k, _ in w.log):
        return _fail("a store was touched although no registry was passed")
    return ok()


# ============================================================================================ C13: render
def _f(name):
    def f(*a, **k):
        return (name,) + a

    f.__name__ = f.__qualname__ = "f_" + name
    return f


class _RStore(uberjob.ValueStore):
    def __init__(self, name):
        self.name = name

    def read(self):
        return ("stored", self.name)

    def write(self, v):
        pass

    def get_modified_time(self):
        return None

    def __repr__(self):
        return f"_RStore({self.name})"


@nxpatch.untraced
def render_plan(kind):
    """Plans for the render harness, built through the public API only.  Returns (plan, registry, nodes, tuple_form)."""
    p, r = uberjob.Plan(), uberjob.Registry()
    if kind == "flat":
        a = p.call(_f("a"), 1)
        b = p.call(_f("b"), a, k=2)
        c = p.call(_f("c"), a, b)
        p.add_dependency(a, c)
        r.add(b, _RStore("b"))
        return p, r, [a, b, c], (p, c)
    with p.scope("load"):
        s = r.source(p, _RStore("s"))
        a = p.call(_f("a"), s, 1)
        with p.scope("inner"):
            b = p.call(_f("b"), a, k=2)
            b2 = p.call(_f("b2"), b)
    with p.scope("other", 3):
        c = p.call(_f("c"), a, b2)
    z = p.call(_f("z"), c, [b, 4])
    p.add_dependency(a, z)
    r.add(b, _RStore("b"))
    r.add(c, _RStore("c"))
    if kind == "physical":
        pp, on = uberjob.run(p, registry=r, output=z, dry_run=True, progress=None, max_workers=1)
        return pp, r, list(pp.graph.nodes()), (pp, on)
    return p, r, [s, a, b, b2, c, z], (p, None)


_nxv_ready = [False]


def _prepare_nxv():
    if not _nxv_ready[0]:
        import nxv

        nxv.render = nxpatch.untraced(nxv.render)  # nxv works on concrete graphs only: run it natively
        _nxv_ready[0] = True


def _pred_calls(u, d):
    return type(u) is Call


def _pred_none(u, d):
    return False


def c13_render(has_level: bool, level: int, psel: int, use_reg: bool, form: int) -> bool:
    """
    uberjob.render(plan | plan.graph | (plan, node), registry, predicate, level, format='raw') leaves the caller's plan
    (and registry) exactly as it was.  format='raw' makes nxv return the GraphViz source without starting a dot process.

    pre: 0 <= level <= 3
    pre: 0 <= psel <= 2
    pre: 0 <= form <= 2
    post: _
    """
    begin()
    _prepare_nxv()
    plan, reg, nodes, tup = render_plan(RPLAN)
    g = Guard()
    guard_plan(plan, g)
    guard_registry(reg, g)
    s_plan, s_reg = snap_plan(plan), snap_reg(reg)
    # concrete arguments chosen by the symbolic selectors (uberjob slices concrete scope tuples with `level`)
    lv = None
    if has_level:
        lv = 0 if level == 0 else (1 if level == 1 else (2 if level == 2 else 3))
    pred = None if psel == 0 else (_pred_calls if psel == 1 else _pred_none)
    arg = plan if form == 0 else (plan.graph if form == 1 else tup)
    g.armed = True
    err = None
    try:
        res = uberjob.render(arg, registry=reg if use_reg else None, predicate=pred, level=lv, format="raw")
    except Exception as e:
        err = e
    r = _unchanged(g, [(s_plan, snap_plan, diff_plan, plan, "plan"), (s_reg, snap_reg, diff_reg, reg, "registry")])
    if r is not None:
        return _fail(r)
    if err is not None:
        return _fail(f"render raised {err!r}")
    if not isinstance(res, str) or "digraph" not in res:
        return _fail(f"render returned {type(res)}")
    return ok()


# ============================================================================================ C13: Plan.copy / Registry.copy
NOPS = 10


def _mutate(op, plan, reg, nodes, i, j, w):
    """One public-API mutation of (plan, reg), chosen by op.  Returns None or an error text."""
    if op == 0:
        plan.call(_f("new"), nodes[i], x=nodes[j])
    elif op == 1:
        plan.lit(("lit", 5))
    elif op == 2:
        plan.add_dependency(nodes[i], nodes[j])
    elif op == 3:
        plan.gather([nodes[i], {"k": (nodes[j], 1)}])
    elif op == 4:
        plan.unpack(nodes[i], 2)
    elif op == 5:
        n = plan.call(_f("new5"))
        reg.add(n, W.LStore("new5", True, 5, ("v",), w))
    elif op == 6:
        reg.source(plan, W.LStore("new6", True, 6, ("v",), w))
    elif op == 7:
        with plan.scope("sc", 1):
            plan.call(_f("new7"), 3)
    elif op == 8:
        # the mutation the repository's own test_registry_copy performs on a copy
        first = next(iter(reg.mapping))
        rv = reg.mapping[first]
        rv.is_source = not rv.is_source
        rv.value_store = W.LStore("new8", True, 8, ("v",), w)
    elif op == 9:
        target = nodes[i]
        if target in reg:
            try:
                reg.add(target, W.LStore("new9", True, 9, ("v",), w))
            except Exception:
                return None  # "already has a value store": refused, nothing changes -- legitimate
            return "Registry.add accepted a second store for one node"
        reg.add(target, W.LStore("new9", True, 9, ("v",), w))
    return None


@nxpatch.untraced
def _reg_rows_fields(reg):
    return [(n, rv.value_store, rv.is_source, rv.stack_frame) for n, rv in reg.mapping.items()]


def c13_copy(op: int, i: int, j: int, on_copy: bool, dunder: bool) -> bool:
    """
    Plan.copy / Registry.copy (or copy.copy: __copy__) give an object with the same structure; mutating one side
    through the public API (symbolic choice of operation and operands) leaves the other side untouched -- in both
    directions (on_copy: mutate the copy, else mutate the original).

    pre: 0 <= op < 10
    pre: 0 <= i < 4 and 0 <= j < 4
    post: _
    """
    begin()
    sh = SHAPE
    if i >= sh.n or j >= sh.n:
        return True
    w = W.World(W.NOW)
    b = W.build(sh, w, [True] * sh.n, [10, 20, 30, 40][: sh.n])
    assign_scopes(b)
    st0, rows0 = structure_plan(b.plan), _reg_rows_fields(b.reg)
    with b.plan.scope("outer"):  # "The new copy starts with an empty scope"
        cp = _copy.copy(b.plan) if dunder else b.plan.copy()
    cr = _copy.copy(b.reg) if dunder else b.reg.copy()
    if type(cp) is not uberjob.Plan or type(cr) is not uberjob.Registry:
        return _fail("copy has the wrong type")
    if cp is b.plan or cp.graph is b.plan.graph or cr is b.reg or cr.mapping is b.reg.mapping:
        return _fail("copy shares the graph / mapping object with its original")
    if cp._scope != ():
        return _fail("the copy does not start with an empty scope")
    if not same_structure(st0, structure_plan(cp)) or not same_structure(st0, structure_plan(b.plan)):
        return _fail("the copy's structure differs from the original's")
    rows1 = _reg_rows_fields(cr)
    if len(rows0) != len(rows1) or any(not _same_seq(a, c, (0, 1, 2, 3)) for a, c in zip(rows0, rows1)):
        return _fail("the registry copy's entries differ from the original's")
    if on_copy:
        tp, tr, op_, or_ = cp, cr, b.plan, b.reg
    else:
        tp, tr, op_, or_ = b.plan, b.reg, cp, cr
    g = Guard()
    guard_plan(op_, g)
    guard_registry(or_, g)
    s_plan, s_reg = snap_plan(op_), snap_reg(or_)
    t_before = (len(structure_plan(tp)[0]), len(structure_plan(tp)[1]), _reg_rows_fields(tr))
    g.armed = True
    err = None
    try:
        err = _mutate(op, tp, tr, b.nodes, i, j, w)
    except Exception as e:
        err = f"mutation raised {e!r}"
    r = _unchanged(g, [(s_plan, snap_plan, diff_plan, op_, "untouched plan"),
                       (s_reg, snap_reg, diff_reg, or_, "untouched registry")])
    if r is not None:
        return _fail(r)
    if err is not None:
        return _fail(err)
    t_after = (len(structure_plan(tp)[0]), len(structure_plan(tp)[1]), _reg_rows_fields(tr))
    # legitimate no-ops: a second store for a registered node is refused; an existing Dependency edge is not duplicated
    refused = (op == 9 and b.nodes[i] in or_) or (op == 2 and (i, j, "d") in sh.edges)
    changed = t_after[0] != t_before[0] or t_after[1] != t_before[1] or len(t_after[2]) != len(t_before[2]) or any(
        not _same_seq(a, c, (0, 1, 2, 3)) for a, c in zip(t_before[2], t_after[2]))
    if not changed and not refused:
        return _fail("the mutation had no effect on the mutated side (harness would be vacuous)")
    return ok()


# ============================================================================================ C14
def _marker_tp(world, seen):
    def tp(plan, node):
        seen.append(node)
        if TP_COPY:
            plan = plan.copy()  # a callback may return a new plan object: run must use what the callback RETURNS
        m = plan.call(W.mk_fn("marker", world), node) if node is not None else plan.call(W.mk_fn("marker", world))
        return plan, (m if node is not None else None)

    return tp


@nxpatch.untraced
def _nodes_of(plan):
    return list(plan.graph.nodes())


@nxpatch.untraced
def _has_node(plan, n):
    return plan.graph.has_node(n)


def c14_dry(p0: bool, t0: int, p1: bool, t1: int, p2: bool, t2: int, p3: bool, t3: int, hf: bool, ft: int) -> bool:
    """
    Two worlds A and B with separate store objects in the same symbolic state (stored values adversarial: from-scratch
    exactly where the state looks up to date, a garbage term elsewhere; reads normalise, so a read value differs from
    the computed one).  A: dry run, then the returned physical plan executed by itself (all of its nodes, no registry).
    B: the real run.

    pre: t0 != t1 and t0 != t2 and t0 != t3 and t1 != t2 and t1 != t3 and t2 != t3
    pre: ft != t0 and ft != t1 and ft != t2 and ft != t3
    pre: t0 < 1000000000 and t1 < 1000000000 and t2 < 1000000000 and t3 < 1000000000 and ft < 1000000000
    post: _
    """
    begin()
    sh = SHAPE
    P, TT = _state(p0, t0, p1, t1, p2, t2, p3, t3)
    U = W.looks_up_to_date(sh, P, TT)
    K = [U.get(j, False) for j in range(sh.n)]
    wa, wb = W.World(W.NOW), W.World(W.NOW)
    A = W.build(sh, wa, P, TT, K, normalise=True)
    B = W.build(sh, wb, P, TT, K, normalise=True)
    outa, outb = output_spec(A, sh, OUT), output_spec(B, sh, OUT)
    fresh = W.FT(ft) if hf else None
    seen_a, seen_b = [], []
    kwa = {"transform_physical": _marker_tp(wa, seen_a)} if TP else {}
    kwb = {"transform_physical": _marker_tp(wb, seen_b)} if TP else {}
    pre_a = [(s.present, s.t, s.val) if s is not None else None for s in A.stores]
    # ---- (1) the dry run touches nothing
    order0 = W.ORDER
    if SWAP:
        W.ORDER = "lifo"  # "what the run would do" may not depend on how the stale check happens to be scheduled
    d = call_run(outa, A.plan, registry=A.reg, output=outa, dry_run=True, fresh_time=fresh, **kwa)
    if SWAP:
        W.ORDER = "fifo"
    if isinstance(d, str):
        return _fail("dry run: " + d)
    if d.kind != "ok":
        return _fail(f"dry run failed ({d.kind})")
    if any(k != "m" for k, _ in wa.log) or any(t[0] != "m" for t in wa.optags):
        return _fail(f"dry run did more than modified-time queries: {wa.log}")
    if wa.clock != W.NOW:
        return _fail("dry run advanced the clock (a write happened)")
    for s, pre in zip(A.stores, pre_a):
        if s is not None and (s.present is not pre[0] or s.t is not pre[1] or s.val is not pre[2]):
            return _fail(f"dry run changed store {s.name}")
    m_dry = _counts(wa.log, "m")
    if any(c != 1 for c in m_dry.values()):
        return _fail("dry run asked a store for its modified time more than once")
    res = d.result
    if type(res) is not tuple or len(res) != 2 or not isinstance(res[0], uberjob.Plan):
        return _fail(f"dry run returned {res!r}")
    pplan, onode = res
    if outa is None and not TP:
        if onode is not None:
            return _fail("dry run returned an output node although no output was requested")
    if outa is not None:
        if not isinstance(onode, uberjob.graph.Node) or not _has_node(pplan, onode):
            return _fail("the returned output node is not a node of the returned physical plan")
    # ---- (2) the physical plan executed by itself (every node, no registry) vs the real run
    del wa.log[:]
    nodes = _nodes_of(pplan)
    snap0 = snap_plan(pplan)
    ea = call_run(None, pplan, output=[onode, nodes])
    # (C13) the plan a dry run returned is the caller's plan like any other: executing it must leave it exactly as it was
    dchg = diff_plan(snap0, snap_plan(pplan))
    if dchg is not None:
        return _fail("running the dry-run plan modified it: " + str(dchg))
    eb = call_run(outb, B.plan, registry=B.reg, output=outb, fresh_time=fresh, **kwb)
    W.ORDER = order0
    if isinstance(ea, str):
        return _fail("executing the dry-run plan: " + ea)
    if isinstance(eb, str):
        return _fail("real run: " + eb)
    if ea.kind != eb.kind:
        return _fail(f"dry-run plan executed by itself: {ea.kind}; real run: {eb.kind}")
    if _counts(wb.log, "m") != m_dry:
        return _fail("dry run and real run asked different stores for their modified time")
    if ea.kind != "ok":
        if ea.kind != "empty":
            return _fail(f"unexpected failure kind {ea.kind}")
        return ok()  # both fail on a missing value that nothing rebuilds (a missing pure source)
    for kind in ("c", "r", "w"):
        if _counts(wa.log, kind) != _counts(wb.log, kind):
            return _fail(f"event multiset '{kind}' differs: plan alone {_counts(wa.log, kind)} real {_counts(wb.log, kind)}")
    if any(k == "m" for k, _ in wa.log):
        return _fail("the physical plan asks for modified times")
    for sa, sb in zip(A.stores, B.stores):
        if sa is not None:
            if bool(sa.present) != bool(sb.present) or sa.val != sb.val:
                return _fail(f"final store contents differ for {sa.name}")
            if (sa.t == TT[sa.name]) != (sb.t == TT[sb.name]):
                return _fail(f"store {sa.name} rewritten in one world only")
    if ea.result[0] != eb.result or type(ea.result[0]) is not type(eb.result):
        return _fail(f"outputs differ: plan alone {ea.result[0]!r}, real run {eb.result!r}")
    return ok()


def c14_noreg(osel: int, tp: bool) -> bool:
    """
    Without a registry: the dry run executes nothing; its plan executed by itself does what the real run does.

    pre: 0 <= osel <= 2
    post: _
    """
    begin()
    sh = SHAPE
    wa, wb = W.World(W.NOW), W.World(W.NOW)
    ones, tt = [True] * sh.n, [10, 20, 30, 40][: sh.n]
    A, B = W.build(sh, wa, ones, tt), W.build(sh, wb, ones, tt)
    kind = "none" if osel == 0 else ("shape" if osel == 1 else "struct")
    outa, outb = output_spec(A, sh, kind), output_spec(B, sh, kind)
    seen_a, seen_b = [], []
    kwa = {"transform_physical": _marker_tp(wa, seen_a)} if tp else {}
    kwb = {"transform_physical": _marker_tp(wb, seen_b)} if tp else {}
    d = call_run(outa, A.plan, output=outa, dry_run=True, **kwa)
    if isinstance(d, str) or d.kind != "ok":
        return _fail(f"dry run: {d if isinstance(d, str) else d.kind}")
    if wa.log or wa.ops:
        return _fail(f"dry run executed something: {wa.log}")
    pplan, onode = d.result
    if outa is not None and (not isinstance(onode, uberjob.graph.Node) or not _has_node(pplan, onode)):
        return _fail("the returned output node is not a node of the returned physical plan")
    if outa is None and not tp and onode is not None:
        return _fail("output node without a requested output")
    ea = call_run(None, pplan, output=[onode, _nodes_of(pplan)])
    eb = call_run(outb, B.plan, output=outb, **kwb)
    if isinstance(ea, str) or isinstance(eb, str):
        return _fail(f"{ea if isinstance(ea, str) else ''} {eb if isinstance(eb, str) else ''}")
    if ea.kind != eb.kind:
        return _fail(f"plan alone: {ea.kind}; real run: {eb.kind}")
    if ea.kind != "ok":
        return ok() if ea.kind == "not_transformed" else _fail(ea.kind)
    if _counts(wa.log, "c") != _counts(wb.log, "c") or len(wa.log) != len(wb.log):
        return _fail("call multisets differ")
    if ea.result[0] != eb.result:
        return _fail(f"outputs differ: {ea.result[0]!r} vs {eb.result!r}")
    return ok()


# ============================================================================================ validation of the instruments
def selfcheck():
    """Concrete validation of snapshot / guard / scope assignment / marker transform against the real objects.
    Returns the number of individual validations performed; raises AssertionError on the first failure."""
    n = 0
    import shapes

    # 1. scopes assigned directly == scopes produced by `with plan.scope(...)`
    p = uberjob.Plan()
    with p.scope("g1", "in"):
        c = p.call(_f("x"))
    assert c.scope == ("g1", "in") == scope_for(1) and type(c.scope) is tuple
    n += 1
    for sh in shapes.THOROUGH:
        w = W.World(W.NOW)
        b = W.build(sh, w, [True] * sh.n, [10, 20, 30, 40][: sh.n])
        if SCOPED:
            for j, nd in enumerate(b.nodes):
                nd.scope = scope_for(j)
        ref = W.build(sh, W.World(W.NOW), [True] * sh.n, [10, 20, 30, 40][: sh.n])
        if SCOPED:
            for j, nd in enumerate(ref.nodes):
                nd.scope = scope_for(j)
        # 2. snapshot is stable and sees every kind of change
        s0 = snap_plan(b.plan)
        assert diff_plan(s0, snap_plan(b.plan)) is None
        r0 = snap_reg(b.reg)
        assert diff_reg(r0, snap_reg(b.reg)) is None
        n += 2
        # 3. the guarded objects have the same content as before, and behave the same for reads and for run
        g = Guard()
        st_before = structure_plan(b.plan)
        guard_plan(b.plan, g)
        guard_registry(b.reg, g)
        assert same_structure(st_before, structure_plan(b.plan))
        assert diff_plan(s0, snap_plan(b.plan)) is None, diff_plan(s0, snap_plan(b.plan))
        assert diff_reg(r0, snap_reg(b.reg)) == "registry.mapping rebound"
        r0 = snap_reg(b.reg)
        G = b.plan.graph
        for u, v, k in G.edges(keys=True):
            assert G._pred[v][u] is G._adj[u][v] and G.has_edge(u, v, k)
        assert G._succ is G._adj
        n += 3
        g.armed = True
        out = b.nodes[sh.out] if sh.out is not None else None
        got = uberjob.run(b.plan, registry=b.reg, output=out, progress=None, max_workers=1)
        want = uberjob.run(ref.plan, registry=ref.reg, output=ref.nodes[sh.out] if sh.out is not None else None,
                           progress=None, max_workers=1)
        assert got == want and not g.hits
        n += 1
        # 4. every mutator of the guarded objects raises and is recorded; nothing changes
        trials = [
            lambda: G.add_node(object()), lambda: G.add_nodes_from([object()]), lambda: G.remove_node(b.nodes[0]),
            lambda: G.remove_nodes_from([b.nodes[0]]), lambda: G.add_edge(b.nodes[0], b.nodes[1], "k"),
            lambda: G.add_edges_from([(b.nodes[0], b.nodes[1])]), lambda: G.remove_edge(*list(G.edges(keys=True))[0]),
            lambda: G.remove_edges_from(list(G.edges(keys=True))[:1]), lambda: G.clear(), lambda: G.clear_edges(),
            lambda: G.update(nodes=[object()]), lambda: G.remove_nodes_from([]),
            lambda: b.plan.call(_f("q")), lambda: b.plan.lit(1), lambda: b.plan.add_dependency(b.nodes[0], b.nodes[1]),
            lambda: b.plan.unpack(b.nodes[0], 1), lambda: b.plan.scope("x").__enter__(),
            lambda: b.plan.gather([b.nodes[0]]),
            lambda: b.reg.add(b.nodes[0], None), lambda: b.reg.source(b.plan, None),
            lambda: b.reg.mapping.pop(next(iter(b.reg.mapping))), lambda: b.reg.mapping.clear(),
            lambda: b.reg.mapping.update({}), lambda: b.reg.mapping.__setitem__(1, 2),
            # direct writes to the storage dicts (bypassing the methods)
            lambda: G._node.__setitem__(object(), {}), lambda: G._adj[b.nodes[0]].clear(),
            lambda: G._pred[b.nodes[sh.n - 1]].pop(b.nodes[0], None), lambda: G._node[b.nodes[0]].update(a=1),
            lambda: G.graph.__setitem__("name", "x"),
            lambda: G._adj[b.nodes[sh.edges[0][0]]][b.nodes[sh.edges[0][1]]].clear(),
            lambda: next(iter(G._adj[b.nodes[sh.edges[0][0]]][b.nodes[sh.edges[0][1]]].values())).update(w=1),
        ]
        for t in trials:
            before = len(g.hits)
            try:
                t()
                raise AssertionError("guard did not raise")
            except GuardHit:
                pass
            assert len(g.hits) == before + 1
            n += 1
        g.disarm()
        assert diff_plan(s0, snap_plan(b.plan)) is None and diff_reg(r0, snap_reg(b.reg)) is None
        # 5. after disarm the objects are ordinary again; the snapshot notices each change
        x = b.plan.call(_f("x"), b.nodes[0])
        assert diff_plan(s0, snap_plan(b.plan)) is not None
        b.plan.graph.remove_node(x)
        assert diff_plan(s0, snap_plan(b.plan)) is None
        b.nodes[0].scope = ("zz",)
        assert diff_plan(s0, snap_plan(b.plan)) is not None
        b.nodes[0].scope = scope_for(0) if SCOPED else ()
        assert diff_plan(s0, snap_plan(b.plan)) is None
        if len(sh.edges) > 0:
            u, v, k = list(b.plan.graph.edges(keys=True))[0]
            b.plan.graph.remove_edge(u, v, k)
            assert diff_plan(s0, snap_plan(b.plan)) is not None
            b.plan.graph.add_edge(u, v, k)
        first = next(iter(b.reg.mapping))
        b.reg.mapping[first].is_source = not b.reg.mapping[first].is_source
        assert diff_reg(r0, snap_reg(b.reg)) is not None
        b.reg.mapping[first].is_source = not b.reg.mapping[first].is_source
        assert diff_reg(r0, snap_reg(b.reg)) is None
        b.reg.mapping[first] = _copy.copy(b.reg.mapping[first])
        assert diff_reg(r0, snap_reg(b.reg)) is not None
        n += 7
    # 6. render returns GraphViz source for every plan kind; the marker transform is applied by the real run
    _prepare_nxv()
    for kind in ("flat", "scoped", "physical"):
        for lv in (None, 0, 1, 2):
            plan, reg, nodes, tup = render_plan(kind)  # a fresh plan per call: no assumption that render is harmless
            s = uberjob.render(plan, registry=reg, level=lv, format="raw")
            assert isinstance(s, str) and "digraph" in s
            n += 1
    w = W.World(W.NOW)
    sh = shapes.QUICK[0]
    b = W.build(sh, w, [False] * sh.n, [10, 20, 30])
    seen = []
    r = uberjob.run(b.plan, registry=b.reg, output=b.nodes[2], progress=None, max_workers=1,
                    transform_physical=_marker_tp(w, seen))
    assert r[0] == "marker" and ("c", "marker") in w.log and len(seen) == 1
    n += 1
    return n
