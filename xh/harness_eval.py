"""E1 harnesses for C02 (run returns exactly what direct evaluation would return).

Four harness functions, each executed by CrossHair on the REAL uberjob code (graph.get_argument_nodes, Plan._call /
_gather / unpack / copy, run -> prune -> prep_run_physical -> BoundCall.run, _builtins.gather_* / unpack) with the
thread engine replaced by world.seq_engine (sequential stand-in, W=1):

  c02_argnodes   get_argument_nodes on a MultiDiGraph whose in-edge order is arbitrary (symbolic distinct sort keys ->
                 insertion order and node creation order), optionally after remove/re-add of one edge, a plain
                 Dependency edge, shared predecessors, and Plan.copy().
  c02_output     uberjob.run(plan, output=<structure>) for structures decoded from symbolic option codes.
  c02_callargs   plan.call(spy, *structures, **structures): what the call function sees (values, exact container types,
                 `is`-identity of node-free arguments, keyword names and ORDER), called exactly once.
  c02_unpack     plan.unpack(iterable, n) with symbolic n in 0..4 and actual length m in 0..5.

Everything that is a finite code (which option fills a slot, widths, p/k) is decoded with explicit `==` tests, so
CrossHair forks once per value and exhausts that dimension path by path; the leaf values, node values and sort keys
stay symbolic ints on every path (set elements: a small bounded domain, because CPython's set() hashes = realises them).

Case split (environment, concrete per condition):
  XH_G        number of leaf kinds used inside depth-2 containers (2: const/node_a, 3: + node_b)
  XH_HDOM     size of the value domain of leaves that end up hashed by set() (2 or 3)
  XH_ROOT     c02_output: slot | list | tuple | set | dict
  XH_RICH     comma list of slot indices drawing from the rich option list (the others draw from the poor list)
  XH_CHUNK    "i/n": the first rich slot (slot 0 if none) only draws from the i-th of n chunks of its option list
  XH_WIDTH    c02_output: fixed width (1 or 2) of the root container, default symbolic
  XH_PK       c02_argnodes / c02_callargs: "p,k" | "sym<n>" (p, k symbolic with p + k <= n) | "eq<n>" (p symbolic, k = n - p)
  XH_MODE     c02_argnodes: ins | copy0 | copy1 | copy2 ; XH_VARIANTS: quick | full
  XH_SLOTS    c02_callargs: medium | large | poor
  XH_POOR     c02_output: min | std (option list of the slots that are not rich)
  XH_KIND     c02_unpack: iterable kind 0 literal list | 1 call->list | 2 call->generator | 3 call->tuple (default: symbolic)
  XH_UNPACK_N c02_unpack: pick (n decoded to a concrete int first) | sym (the symbolic n is handed to Plan.unpack)
  XH_REAL_ENGINE=1  keep uberjob's real thread engine (used only by the concrete stub validation)
"""
import itertools
import math
import os

import world as W
from world import begin, ok

REAL_ENGINE = os.environ.get("XH_REAL_ENGINE") == "1"
if not REAL_ENGINE:
    W.install_engine()

import uberjob  # noqa: E402
from uberjob import Plan, _builtins  # noqa: E402
from uberjob.graph import Call, Dependency, KeywordArg, Node, PositionalArg, get_argument_nodes  # noqa: E402

G_N = int(os.environ.get("XH_G", "2"))
HDOM = int(os.environ.get("XH_HDOM", "2"))
ROOT = os.environ.get("XH_ROOT", "slot")
RICH = {int(x) for x in os.environ.get("XH_RICH", "").split(",") if x != ""}
CHUNK = os.environ.get("XH_CHUNK", "")
WIDTH = os.environ.get("XH_WIDTH", "")
PK = os.environ.get("XH_PK", "sym3")
MODE = os.environ.get("XH_MODE", "ins")
VARIANTS = os.environ.get("XH_VARIANTS", "quick")
SLOTS = os.environ.get("XH_SLOTS", "medium")
POOR = os.environ.get("XH_POOR", "min")
KIND = os.environ.get("XH_KIND", "")
UNPACK_N = os.environ.get("XH_UNPACK_N", "pick")
WORKERS = int(os.environ.get("XH_WORKERS", "1"))
RUN_KW = {"progress": None, "max_workers": WORKERS}
if os.environ.get("XH_SCHEDULER"):
    RUN_KW["scheduler"] = os.environ["XH_SCHEDULER"]

NAMES = "bdac"  # keyword names by index: neither alphabetical nor reverse alphabetical


def _pick(v, n):
    """Concrete value of the code v if 0 <= v < n, else None: a binary decision tree over the symbolic int, so CrossHair
    still explores one path per value but asks the solver only ~log2(n) questions per path."""
    if n <= 0 or v < 0 or v >= n:
        return None
    lo, hi = 0, n
    while hi - lo > 1:
        mid = (lo + hi) // 2
        if v < mid:
            hi = mid
        else:
            lo = mid
    return lo


def _perm(keys):
    """Concrete permutation (indices in ascending key order) of symbolic pairwise distinct keys: one fork per pair, so
    CrossHair explores exactly the n! feasible orders."""
    n = len(keys)
    rank = [0] * n
    for i in range(n):
        for j in range(i):
            if keys[j] < keys[i]:
                rank[i] += 1
            else:
                rank[j] += 1
    order = [0] * n
    for i in range(n):
        order[rank[i]] = i
    return order


def _pk(p, k):
    """(p, k) concrete: from XH_PK='p,k' or decoded from the symbolic p, k with p + k <= n (XH_PK='sym<n>')."""
    if PK.startswith("eq"):  # p symbolic, k = n - p
        n = int(PK[2:])
        pp = _pick(p, n + 1)
        if pp is None:
            return None
        return pp, n - pp
    if PK.startswith("sym"):
        n = int(PK[3:])
        pp = _pick(p, n + 1)
        if pp is None:
            return None
        kk = _pick(k, n + 1 - pp)
        if kk is None:
            return None
        return pp, kk
    a, b = PK.split(",")
    return int(a), int(b)


# =============================================================================== (1) get_argument_nodes
def _variants(n):
    """(share, rm, dep) combinations.  share: None | (i, j) edge j uses edge i's predecessor | 'all';
    rm: None | index of the edge removed and re-added from a fresh predecessor (what caching's rewiring does);
    dep: 0 none | 1 a plain Dependency edge from a fresh node inserted first | 2 a Dependency edge from edge 0's
    predecessor inserted last."""
    pairs = [(i, j) for j in range(n) for i in range(j)]
    shares = [None] + pairs + (["all"] if n >= 2 else [])
    rms = [None] + list(range(n))
    if VARIANTS == "full":
        return [(s, r, d) for s in shares for r in rms for d in (0, 1, 2)]
    if n < 2:
        return [(None, r, d) for r in rms for d in (0, 1, 2)]
    return [(None, None, 0), ((0, n - 1), None, 0), ("all", None, 0), (None, 0, 0), (None, n - 1, 0), (None, None, 1), (None, None, 2),
            ((0, n - 1), 0, 2), ((n - 2, n - 1), n - 1, 1)]


def c02_argnodes(p: int, k: int, s0: int, s1: int, s2: int, s3: int, variant: int) -> bool:
    """
    pre: s0 != s1 and s0 != s2 and s0 != s3 and s1 != s2 and s1 != s3 and s2 != s3
    post: _
    """
    begin()
    pk = _pk(p, k)
    if pk is None:
        return True
    P, K = pk
    n = P + K
    sigma = _perm([s0, s1, s2, s3][:n])
    vs = _variants(n)
    vi = _pick(variant, len(vs))
    if vi is None:
        return True
    share, rm, dep = vs[vi]
    # MODE ins:   nodes created in index order, edges inserted in sigma order, no copy
    # MODE copyX: nodes created in sigma order, Plan.copy() before the query; edges inserted in
    #             index order (copy0) / reverse index order (copy1) / sigma order (copy2)
    copy = MODE.startswith("copy")
    create = sigma if copy else list(range(n))
    insert = {"ins": sigma, "copy0": list(range(n)), "copy1": list(range(n))[::-1], "copy2": sigma}[MODE]
    keys = [PositionalArg(i) for i in range(P)] + [KeywordArg(NAMES[j], j) for j in range(K)]
    owner = list(range(n))
    if share == "all":
        owner = [0] * n
    elif share is not None:
        owner[share[1]] = share[0]
    plan = Plan()
    call = Call(len)
    if not copy:
        plan.graph.add_node(call)
    nodes = [None] * n
    for i in create:
        if owner[i] == i:
            nodes[i] = plan.lit(("v", i))
    if copy:
        plan.graph.add_node(call)
    pred = [nodes[owner[i]] for i in range(n)]
    if dep == 1:
        plan.graph.add_edge(plan.lit("dep"), call, Dependency())
    for i in insert:
        plan.graph.add_edge(pred[i], call, keys[i])
    if dep == 2 and n > 0:
        plan.graph.add_edge(pred[0], call, Dependency())
    if rm is not None:
        new = plan.lit(("new", rm))
        plan.graph.remove_edge(pred[rm], call, keys[rm])
        plan.graph.add_edge(new, call, keys[rm])
        pred[rm] = new
    g = plan.copy().graph if copy else plan.graph
    args, kwargs = get_argument_nodes(g, call)
    if type(args) is not list or type(kwargs) is not dict:
        return False
    if len(args) != P or len(kwargs) != K:
        return False
    for i in range(P):
        if args[i] is not pred[i]:
            return False
    items = list(kwargs.items())  # the ORDER of the dict is part of the contract
    for j in range(K):
        if items[j][0] != NAMES[j] or items[j][1] is not pred[P + j]:
            return False
    return ok()


# =============================================================================== structures
CONST, NODE_A, NODE_B, LIT, BOX, MYLIST, MYTUPLE = range(7)
LIST, TUPLE, SET, DICT = "list", "tuple", "set", "dict"
LEAF_NAMES = ["const", "node_a", "node_b", "lit", "box", "mylist", "mytuple"]


class Box:
    """Opaque object that holds a Node: must be passed through untouched (same object)."""

    __slots__ = ("inner",)

    def __init__(self, inner):
        self.inner = inner


class MyList(list):
    """Subclass of list: not one of the exact built-in container types, so it is opaque to gather."""


class MyTuple(tuple):
    """Subclass of tuple (like a namedtuple): opaque to gather, hashable."""


GK = [CONST, NODE_A, NODE_B][:G_N]  # leaf kinds inside depth-2 containers
HASHABLE_LEAVES = [CONST, NODE_A, NODE_B, LIT, BOX, MYTUPLE]
ALL_LEAVES = HASHABLE_LEAVES[:4] + [BOX, MYLIST, MYTUPLE]


def _conts(kind, maxw=2):
    return [("C", kind, combo) for w in range(maxw + 1) for combo in itertools.product(GK, repeat=w)]


def _dicts(maxw=2):
    pairs = list(itertools.product(GK, GK))
    return [("D", combo) for w in range(maxw + 1) for combo in itertools.product(pairs, repeat=w)]


FREE_RICH = [("L", x) for x in ALL_LEAVES] + _conts(LIST) + _conts(TUPLE) + _conts(SET) + _dicts()
KEY_RICH = [("L", x) for x in HASHABLE_LEAVES] + _conts(TUPLE)
POOR3 = [("L", CONST), ("L", NODE_A), ("L", NODE_B)]
POOR2 = [("L", CONST), ("L", NODE_A)]
MEDIUM = [("L", x) for x in (CONST, NODE_A, NODE_B, LIT, BOX, MYLIST)] + [
    ("C", LIST, (CONST, CONST)), ("C", LIST, (NODE_A, CONST)), ("C", TUPLE, (CONST, NODE_B)), ("D", ((CONST, NODE_A),)),
]
LARGE = MEDIUM + [("L", MYTUPLE), ("C", LIST, ()), ("C", SET, (NODE_A,)), ("D", ((NODE_B, CONST),))]
ARG_OPTS = {"medium": MEDIUM, "large": LARGE, "poor": POOR3}


def _chunk(opts, slot):
    if CHUNK and slot == (min(RICH) if RICH else 0):
        i, n = (int(x) for x in CHUNK.split("/"))
        return [o for j, o in enumerate(opts) if j % n == i]
    return opts


class Ctx:
    """Plan + pools of symbolic leaves.  node_a / node_b are calls returning va / vb (created eagerly, a before b, so
    that 'b used before a' makes node creation order differ from use order); inside set() the bounded pool is used."""

    def __init__(self, va, vb, ha, hb, free, hashed):
        self.plan = Plan()
        self.vals = []  # (node, value) looked up by identity
        self.nA = self._node(va)
        self.nB = self._node(vb)
        self.nHA = self._node(ha)
        self.nHB = self._node(hb)
        self.free, self.hashed = list(free), list(hashed)

    def _node(self, v):
        n = self.plan.call(lambda: v)
        self.vals.append((n, v))
        return n

    def val(self, node):
        for n, v in self.vals:
            if n is node:
                return v
        raise KeyError(node)

    def leaf(self, kind, hashed):
        if kind == CONST:
            return self.hashed.pop() if hashed else self.free.pop()
        if kind == NODE_A:
            return self.nHA if hashed else self.nA
        if kind == NODE_B:
            return self.nHB if hashed else self.nB
        if kind == LIT:
            v = self.hashed.pop() if hashed else self.free.pop()
            n = self.plan.lit(v)
            self.vals.append((n, v))
            return n
        if kind == BOX:
            return Box(self.nA)
        if kind == MYLIST:
            return MyList([self.nA, 7])
        if kind == MYTUPLE:
            return MyTuple((self.nA, 7))
        raise AssertionError(kind)

    def build(self, opt, hashed=False):
        """The Python value described by an option; hashed: it will end up inside a set (bounded leaves)."""
        if opt[0] == "L":
            return self.leaf(opt[1], hashed)
        if opt[0] == "C":
            kind = opt[1]
            items = [self.leaf(x, hashed or kind == SET) for x in opt[2]]
            return mk(kind, items)
        pairs = [(self.leaf(kx, hashed), self.leaf(vx, hashed)) for kx, vx in opt[1]]
        return dict(pairs)


def mk(kind, items):
    if kind == LIST:
        return list(items)
    if kind == TUPLE:
        return tuple(items)
    if kind == SET:
        return set(items)
    if kind == DICT:
        return dict(items)  # dict(pairs), never a dict display: BUILD_MAP would hash = realise symbolic keys
    raise AssertionError(kind)


# ------------------------------------------------------------------------------- oracle: reference interpreter
def has_node(v):
    """Does direct evaluation have to rebuild v?  Only exact list/tuple/set/dict are looked into."""
    if isinstance(v, Node):
        return True
    t = type(v)
    if t is list or t is tuple or t is set:
        for x in v:
            if has_node(x):
                return True
        return False
    if t is dict:
        for kx, vx in v.items():
            if has_node(kx) or has_node(vx):
                return True
    return False


def evaluate(c, v):
    """Direct evaluation of the expression v: nodes replaced by their values, containers holding nodes rebuilt with the
    same exact type, everything node-free returned as the very object."""
    if isinstance(v, Node):
        return c.val(v)
    if not has_node(v):
        return v
    t = type(v)
    if t is dict:
        return dict([(evaluate(c, kx), evaluate(c, vx)) for kx, vx in v.items()])
    return t([evaluate(c, x) for x in v])


def matches(c, spec, got):
    """got is what direct evaluation of spec yields: identity for node-free parts, exact types and element-wise match
    for rebuilt containers (dict: keys in first-occurrence order, last value wins), equality for node values."""
    if isinstance(spec, Node):
        v = c.val(spec)
        return got is v or (isinstance(got, int) and isinstance(v, int) and got == v)
    if not has_node(spec):
        return got is spec
    t = type(spec)
    if type(got) is not t:
        return False
    if t is list or t is tuple:
        if len(got) != len(spec):
            return False
        for s, g in zip(spec, got):
            if not matches(c, s, g):
                return False
        return True
    if t is set:
        return got == evaluate(c, spec)
    # dict: evaluate the display left to right
    keys, vspecs = [], []
    for kx, vx in spec.items():
        kv = evaluate(c, kx)
        hit = None
        for i in range(len(keys)):
            if keys[i] == kv:
                hit = i
                break
        if hit is None:
            keys.append(kv)
            vspecs.append(vx)
        else:
            vspecs[hit] = vx
    items = list(got.items())
    if len(items) != len(keys):
        return False
    for i in range(len(keys)):
        if not (items[i][0] == keys[i]) or type(items[i][0]) is not type(keys[i]):
            return False
        if not matches(c, vspecs[i], items[i][1]):
            return False
    return True


# =============================================================================== (2a) run(output=structure)
def _slot_opts(slot, ctx):
    """Option list of a slot.  ctx: 'free' | 'key' | 'selem' | 'dval'.  A slot named in XH_RICH draws from the rich list;
    the others from a poor list: XH_POOR=std -> const/node_a/node_b; XH_POOR=min -> the 1-2 options that still allow
    every collision pattern with the rich slot (two different nodes, two constants, node vs constant)."""
    rich = slot in RICH
    if rich:
        opts = FREE_RICH if ctx in ("free", "dval") else KEY_RICH
    elif POOR == "std":
        if ctx == "dval":
            opts = POOR2
        elif ctx == "key":
            # a rich dict value is paired with 2-option keys, everything else with 3-option keys
            opts = POOR2 if (RICH & {1, 3}) else POOR3
        else:
            opts = POOR3
    elif ROOT == "dict":
        opts = [[("L", NODE_A)] if (RICH & {1, 3}) else [("L", NODE_A), ("L", CONST)],
                [("L", CONST)],
                [("L", NODE_B), ("L", CONST)],
                [("L", NODE_A)]][slot]
    else:
        opts = [("L", CONST), ("L", NODE_B)]
    return _chunk(opts, slot)


def c02_output(w: int, o0: int, o1: int, o2: int, o3: int, va: int, vb: int, ha: int, hb: int,
               u0: int, u1: int, u2: int, u3: int, u4: int, u5: int, u6: int, u7: int,
               h0: int, h1: int, h2: int, h3: int) -> bool:
    """
    pre: 0 <= ha < HDOM and 0 <= hb < HDOM and 0 <= h0 < HDOM and 0 <= h1 < HDOM and 0 <= h2 < HDOM and 0 <= h3 < HDOM
    post: _
    """
    begin()
    c = Ctx(va, vb, ha, hb, [u0, u1, u2, u3, u4, u5, u6, u7], [h0, h1, h2, h3])
    codes = [o0, o1, o2, o3]
    if ROOT == "slot":
        opts = _slot_opts(0, "free")
        i = _pick(o0, len(opts))
        if i is None:
            return True
        spec = c.build(opts[i])
    else:
        wd = int(WIDTH) if WIDTH else _pick(w - 1, 2)
        if wd is None:
            return True
        if not WIDTH:
            wd += 1
        ctxs = {"list": ["free", "free"], "tuple": ["free", "free"], "set": ["selem", "selem"],
                "dict": ["key", "dval", "key", "dval"]}[ROOT]
        nslots = wd * (2 if ROOT == "dict" else 1)
        if RICH and max(RICH) >= nslots:
            return True  # this width has no such slot: covered by the condition with the other rich slot
        vals = []
        for s in range(nslots):
            opts = _slot_opts(s, ctxs[s])
            i = _pick(codes[s], len(opts))
            if i is None:
                return True
            vals.append(c.build(opts[i], hashed=(ROOT == "set")))
        if ROOT == "dict":
            spec = dict([(vals[2 * j], vals[2 * j + 1]) for j in range(wd)])
        else:
            spec = mk(ROOT, vals)
    got = uberjob.run(c.plan, output=spec, **RUN_KW)
    if not matches(c, spec, got):
        return False
    return ok()


# =============================================================================== (2b) what the call function sees
def c02_callargs(p: int, k: int, o0: int, o1: int, o2: int, o3: int, va: int, vb: int, ha: int, hb: int,
                 u0: int, u1: int, u2: int, u3: int, u4: int, u5: int, u6: int, u7: int,
                 h0: int, h1: int, h2: int, h3: int) -> bool:
    """
    pre: 0 <= ha < HDOM and 0 <= hb < HDOM and 0 <= h0 < HDOM and 0 <= h1 < HDOM and 0 <= h2 < HDOM and 0 <= h3 < HDOM
    post: _
    """
    begin()
    pk = _pk(p, k)
    if pk is None:
        return True
    P, K = pk
    c = Ctx(va, vb, ha, hb, [u0, u1, u2, u3, u4, u5, u6, u7], [h0, h1, h2, h3])
    codes = [o0, o1, o2, o3]
    specs = []
    for s in range(P + K):
        opts = _chunk(ARG_OPTS[SLOTS], s)
        i = _pick(codes[s], len(opts))
        if i is None:
            return True
        specs.append(c.build(opts[i]))
    log = []

    def spy(*args, **kwargs):
        log.append((args, list(kwargs.items())))
        return ("spy", len(log))

    node = c.plan.call(spy, *specs[:P], **dict([(NAMES[j], specs[P + j]) for j in range(K)]))
    got = uberjob.run(c.plan, output=node, **RUN_KW)
    if len(log) != 1:
        return False  # called exactly once
    if type(got) is not tuple or got[0] != "spy" or got[1] != 1:
        return False
    args, kwitems = log[0]
    if len(args) != P or len(kwitems) != K:
        return False
    for i in range(P):
        if not matches(c, specs[i], args[i]):
            return False
    for j in range(K):
        if kwitems[j][0] != NAMES[j]:
            return False  # names in the order given
        if not matches(c, specs[P + j], kwitems[j][1]):
            return False
    return ok()


# =============================================================================== (3) unpack
def c02_unpack(n: int, m: int, kind: int, x0: int, x1: int, x2: int, x3: int, x4: int, nz: int = 0) -> bool:
    """
    nz: 0 = all items are ints; j + 1 = item j is None instead (None is a value like any other: a surplus None counts too)

    pre: 0 <= n <= 4 and 0 <= m <= 5 and 0 <= kind <= 3 and 0 <= nz <= 5
    post: _
    """
    begin()
    M = _pick(m, 6)
    nzd = _pick(nz, 6)
    items = [x0, x1, x2, x3, x4, x0][:M]
    items = [None if j + 1 == nzd else v for j, v in enumerate(items)]
    kd = _pick(kind, 4)
    if KIND != "" and kd != int(KIND):
        return True  # this iterable kind belongs to another condition
    if UNPACK_N != "sym":
        n = _pick(n, 5)  # decoded; with XH_UNPACK_N=sym the symbolic n itself goes through Plan.unpack
    plan = Plan()
    if kd == 0:
        src = items  # a node-free list: becomes a literal
    elif kd == 1:
        src = plan.call(lambda: list(items))
    elif kd == 2:
        src = plan.call(lambda: (x for x in items))  # a generator, created at run time
    else:
        src = plan.call(lambda: tuple(items))
    parts = plan.unpack(src, n)
    if type(parts) is not tuple:
        return False
    N = len(parts)
    if N != n:
        return False
    for q in parts:
        if not isinstance(q, Node):
            return False
    unpack_calls = [x for x in plan.graph.nodes() if type(x) is Call and x.fn is _builtins.unpack]
    if len(unpack_calls) != 1:
        return False
    if N > 0:
        output = parts
    else:
        output = unpack_calls[0]  # nothing else would keep the unpack call alive
    try:
        got = uberjob.run(plan, output=output, **RUN_KW)
    except uberjob.CallError as e:
        if M == N:
            return False
        if type(e.__cause__) is not ValueError or e.call is not unpack_calls[0]:
            return False
        return ok()
    if M != N:
        return False  # wrong length must fail
    if type(got) is not tuple or len(got) != N:
        return False
    for i in range(N):
        if not (got[i] is items[i] or got[i] == items[i]):
            return False
    return ok()


# =============================================================================== (4) equal-but-distinct constants
CONSTS = [1, True, 1.0, 0, False, 0.0, -0.0, "a", b"a", (1,), (True,), (1.0,), None, 2]


def _exact(x, y):
    """Same value AND same type, recursively (1 / True / 1.0 are three different constants; 0.0 / -0.0 differ by sign)."""
    if type(x) is not type(y):
        return False
    if type(x) is tuple or type(x) is list:
        return len(x) == len(y) and all(_exact(p, q) for p, q in zip(x, y))
    if type(x) is float:
        return x == y and math.copysign(1.0, x) == math.copysign(1.0, y)
    return x == y  # (no repr(): CrossHair turns the repr of a number into a symbolic string and the comparison into a string query)


CSCOPED = os.environ.get("XH_CSCOPED", "0") == "1"


def c02_consts(i: int, j: int) -> bool:
    """
    Constants that compare (and hash) equal but are different values -- 1 / True / 1.0, 0 / False / 0.0 / -0.0, (1,) / (True,) --
    passed as plain arguments of one call and of a second call of the same plan (same scope, or a nested scope): every call
    receives exactly the constant that was written at its call site (value and type), as direct evaluation does.

    pre: 0 <= i < 14 and 0 <= j < 7
    post: _
    """
    begin()
    scoped = CSCOPED
    ci, cj = CONSTS[_pick(i, 14)], CONSTS[_pick(j, 7)]
    ck = cj

    def f(*a):
        return tuple(a)

    plan = Plan()
    a = plan.call(f, ci, cj)
    if scoped:
        with plan.scope("s"):
            b = plan.call(f, ck, ci)
    else:
        b = plan.call(f, ck, ci)
    c = plan.call(f, [cj, ck], {"k": ci})
    got = uberjob.run(plan, output=[a, b, c], **RUN_KW)
    want = [f(ci, cj), f(ck, ci), f([cj, ck], {"k": ci})]
    if type(got) is not list or len(got) != 3:
        return False
    if not _exact(got[0], want[0]) or not _exact(got[1], want[1]):
        return False
    g2, w2 = got[2], want[2]
    if type(g2) is not tuple or len(g2) != 2 or not _exact(g2[0], w2[0]):
        return False
    if type(g2[1]) is not dict or list(g2[1]) != ["k"] or not _exact(g2[1]["k"], w2[1]["k"]):
        return False
    return ok()
