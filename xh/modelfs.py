"""ModelFS: a model file system for the E1 harnesses of C11 / C12 (and a real-file-system mirror used to validate it).

Everything in this file is a STUB and part of the claim.  CrossHair blocks real `open()`, so the real uberjob store
code is executed against this model: `open`, `os` (replace / rename / remove / unlink / path.getmtime / path.exists)
and `tempfile` are replaced *in the uberjob.stores.* module namespaces only* (plus pathlib.Path.open/unlink/replace/
rename/exists for paths below the model root, so that a store that goes through pathlib still reaches the model).

Model
  * a file is an inode (bytes content + mtime); the directory is an association list path(str) -> inode (a list, not a
    dict, so that symbolic path names are compared with == instead of being hashed = realised).  No directories: every
    path below ROOT can be created.
  * clock: concrete instants T0 + n (n = number of operations so far); every content change stamps the inode.
    os.replace moves the inode (its mtime travels with it, as on POSIX); open('w') creates a fresh inode or truncates
    the existing one in place.
  * text layer = io.TextIOWrapper semantics: encoding None/'locale' -> locale encoding; newline=None: '\n' -> os.linesep
    on write, universal newlines ('\r\n', '\r' -> '\n') on read; newline='' / '\n': no translation; '\r', '\r\n':
    '\n' translated on write, nothing on read().  The encoder runs inside write() (UnicodeEncodeError is raised there,
    before anything is buffered), utf-16 writes a BOM with the first write() call.  Codecs are small arithmetic Python
    functions (utf-8, latin-1, ascii, utf-16 native order) so that the solver can reason about every code point; they are
    validated against CPython's codecs by `validate_codecs`.
  * buffering: data passed to write() reaches the inode at close() (flush) only -- or, when the FS is `eager`, at the
    end of every write() (the two extremes of what a BufferedWriter may do).  A rename between write and close
    therefore publishes whatever was flushed so far, and the later flush goes to the *inode*, wherever it is now.
  * operations (each one a fault point, numbered 0,1,2,... in execution order): open for writing, every write(),
    flush(), close(), replace/rename, remove/unlink.   i in faults -> operation i raises OSError without effect
    (close: the file is closed, the buffered data is lost) -- except remove, whose failure is outside the claim
    (uberjob cannot clean up if the cleanup itself fails) and is never injected.   die_at == i -> the process "dies"
    just before operation i: `Die` (a BaseException) is raised and from then on EVERY operation raises Die without any
    effect, so cleanup code that Python would still run has no effect, exactly as after os._exit / SIGKILL.
  * os.path.getmtime raises FileNotFoundError when absent, PermissionError when the path is flagged inaccessible.
"""
import locale
import os as _os
import pathlib
import sys

ROOT = "/mfs"
T0 = 1_700_000_000.0


class Die(BaseException):
    """The process died at this operation (marker caught by the harness at top level)."""


class ModelGap(Exception):
    """The code under test used a file-system feature the model does not have."""


# ------------------------------------------------------------------------------------------------ codecs (arithmetic)
def _enc_error(name, i, why):
    return UnicodeEncodeError(name, "x", 0, 1, f"{why} (model codec, position {i})")


def _dec_error(name, i, why):
    return UnicodeDecodeError(name, b"x", 0, 1, f"{why} (model codec, position {i})")


def enc_ascii(s):
    out = []
    for i, ch in enumerate(s):
        cp = ord(ch)
        if cp >= 128:
            raise _enc_error("ascii", i, "ordinal not in range(128)")
        out.append(cp)
    return bytes(out)


def dec_ascii(b):
    out = []
    for i, x in enumerate(b):
        if x >= 128:
            raise _dec_error("ascii", i, "ordinal not in range(128)")
        out.append(chr(x))
    return "".join(out)


def enc_latin1(s):
    out = []
    for i, ch in enumerate(s):
        cp = ord(ch)
        if cp >= 256:
            raise _enc_error("latin-1", i, "ordinal not in range(256)")
        out.append(cp)
    return bytes(out)


def dec_latin1(b):
    return "".join([chr(x) for x in b])


def enc_utf8(s):
    out = []
    for i, ch in enumerate(s):
        cp = ord(ch)
        if cp < 0x80:
            out.append(cp)
        elif cp < 0x800:
            out.append(0xC0 + cp // 64)
            out.append(0x80 + cp % 64)
        elif cp < 0x10000:
            if 0xD800 <= cp <= 0xDFFF:
                raise _enc_error("utf-8", i, "surrogates not allowed")
            out.append(0xE0 + cp // 4096)
            out.append(0x80 + (cp // 64) % 64)
            out.append(0x80 + cp % 64)
        else:
            out.append(0xF0 + cp // 262144)
            out.append(0x80 + (cp // 4096) % 64)
            out.append(0x80 + (cp // 64) % 64)
            out.append(0x80 + cp % 64)
    return bytes(out)


def dec_utf8(b):
    n = len(b)
    i = 0
    out = []
    while i < n:
        x = b[i]
        if x < 0x80:
            out.append(chr(x))
            i += 1
            continue
        if 0xC2 <= x <= 0xDF:
            need, cp, lo = 1, x - 0xC0, 0x80
        elif 0xE0 <= x <= 0xEF:
            need, cp, lo = 2, x - 0xE0, 0x800
        elif 0xF0 <= x <= 0xF4:
            need, cp, lo = 3, x - 0xF0, 0x10000
        else:
            raise _dec_error("utf-8", i, "invalid start byte")
        if i + need >= n:
            raise _dec_error("utf-8", i, "unexpected end of data")
        for j in range(1, need + 1):
            y = b[i + j]
            if not (0x80 <= y <= 0xBF):
                raise _dec_error("utf-8", i, "invalid continuation byte")
            cp = cp * 64 + (y - 0x80)
        if cp < lo or cp > 0x10FFFF or 0xD800 <= cp <= 0xDFFF:
            raise _dec_error("utf-8", i, "invalid code point")
        out.append(chr(cp))
        i += need + 1
    return "".join(out)


_LE = sys.byteorder == "little"


def _u16_unit(out, u, le):
    if le:
        out.append(u % 256)
        out.append(u // 256)
    else:
        out.append(u // 256)
        out.append(u % 256)


def enc_utf16(s, bom=True):
    out = []
    if bom:
        _u16_unit(out, 0xFEFF, _LE)
    for i, ch in enumerate(s):
        cp = ord(ch)
        if cp < 0x10000:
            if 0xD800 <= cp <= 0xDFFF:
                raise _enc_error("utf-16", i, "surrogates not allowed")
            _u16_unit(out, cp, _LE)
        else:
            v = cp - 0x10000
            _u16_unit(out, 0xD800 + v // 1024, _LE)
            _u16_unit(out, 0xDC00 + v % 1024, _LE)
    return bytes(out)


def dec_utf16(b):
    n = len(b)
    i = 0
    le = _LE
    if n >= 2 and b[0] == 0xFF and b[1] == 0xFE:
        i, le = 2, True
    elif n >= 2 and b[0] == 0xFE and b[1] == 0xFF:
        i, le = 2, False
    out = []
    while i < n:
        if i + 1 >= n:
            raise _dec_error("utf-16", i, "truncated data")
        u = (b[i] + 256 * b[i + 1]) if le else (256 * b[i] + b[i + 1])
        i += 2
        if 0xD800 <= u <= 0xDBFF:
            if i + 1 >= n:
                raise _dec_error("utf-16", i, "unexpected end of data")
            u2 = (b[i] + 256 * b[i + 1]) if le else (256 * b[i] + b[i + 1])
            if not (0xDC00 <= u2 <= 0xDFFF):
                raise _dec_error("utf-16", i, "illegal UTF-16 surrogate")
            i += 2
            out.append(chr(0x10000 + (u - 0xD800) * 1024 + (u2 - 0xDC00)))
        elif 0xDC00 <= u <= 0xDFFF:
            raise _dec_error("utf-16", i, "illegal encoding")
        else:
            out.append(chr(u))
    return "".join(out)


_ALIASES = {
    "utf-8": "utf-8", "utf8": "utf-8", "u8": "utf-8", "utf": "utf-8",
    "latin-1": "latin-1", "latin1": "latin-1", "iso-8859-1": "latin-1", "iso8859-1": "latin-1", "l1": "latin-1",
    "ascii": "ascii", "us-ascii": "ascii", "ansi-x3.4-1968": "ascii", "646": "ascii",
    "utf-16": "utf-16", "utf16": "utf-16", "u16": "utf-16",
}
_ENC = {"utf-8": enc_utf8, "latin-1": enc_latin1, "ascii": enc_ascii, "utf-16": enc_utf16}
_DEC = {"utf-8": dec_utf8, "latin-1": dec_latin1, "ascii": dec_ascii, "utf-16": dec_utf16}


def norm_encoding(encoding):
    """Canonical codec name as io.TextIOWrapper would resolve it (None / 'locale' -> the locale encoding)."""
    if encoding is None or encoding == "locale":
        encoding = "utf-8" if sys.flags.utf8_mode else locale.getencoding()
    key = str(encoding).lower().replace("_", "-")
    if key not in _ALIASES:
        raise ModelGap(f"encoding {encoding!r} is not modelled")
    return _ALIASES[key]


def encode(s, encoding):
    """Bytes of a *complete* text stream `s` written through a TextIOWrapper with this encoding."""
    return _ENC[norm_encoding(encoding)](s)


def decode(b, encoding):
    return _DEC[norm_encoding(encoding)](b)


def translate_out(s, newline):
    """newline translation applied by TextIOWrapper.write"""
    if newline is None:
        tgt = _os.linesep
    elif newline in ("", "\n"):
        return s
    elif newline in ("\r", "\r\n"):
        tgt = newline
    else:
        raise ValueError(f"illegal newline value: {newline!r}")
    if tgt == "\n":
        return s
    return "".join([tgt if ch == "\n" else ch for ch in s])


def translate_in(s, newline):
    """newline translation applied by TextIOWrapper.read() (whole-file read)"""
    if newline is not None:
        if newline not in ("", "\n", "\r", "\r\n"):
            raise ValueError(f"illegal newline value: {newline!r}")
        return s
    out = []
    n = len(s)
    i = 0
    while i < n:
        ch = s[i]
        if ch == "\r":
            out.append("\n")
            if i + 1 < n and s[i + 1] == "\n":
                i += 1
        else:
            out.append(ch)
        i += 1
    return "".join(out)


# ------------------------------------------------------------------------------------------------ the model
_EMPTY = b""


def _cat(a, b):
    """a + b without building a new (symbolic) sequence when one side is the empty constant"""
    if a is _EMPTY:
        return b
    if b is _EMPTY:
        return a
    return a + b


class Inode:
    __slots__ = ("data", "mtime", "ino")

    def __init__(self, data, mtime, ino):
        self.data, self.mtime, self.ino = data, mtime, ino


def _key(path):
    if isinstance(path, pathlib.PurePath):
        return str(path)
    if isinstance(path, bytes):
        raise ModelGap("bytes paths are not modelled")
    if not isinstance(path, str):
        fs = getattr(path, "__fspath__", None)
        if fs is None:
            raise TypeError(f"expected str, bytes or os.PathLike object, not {type(path).__name__}")
        return fs()
    return path


def _hits(faults, i):
    for k in faults:
        if k == i:
            return True
    return False


class ModelFS:
    kind = "model"

    def __init__(self, faults=(), die_at=-1, eager=False):
        self.files = []  # [[path, Inode], ...]
        self.faults = list(faults)  # operation indices that raise OSError
        self.hook = None  # optional callable(fs, index, kind, path) run before each operation (scheduling of a 2nd writer)
        self.die_at = die_at
        self.eager = eager
        self.dead = False
        self.ops = 0
        self.fired = 0  # injected faults (raise or die) so far
        self.oplog = []  # (index, kind, outcome)
        self.inaccessible = []
        self._ino = 0
        self._tmp = 0

    # -- directory
    def _find(self, path):
        for ent in self.files:
            if ent[0] == path:
                return ent
        return None

    def lookup(self, path):
        ent = self._find(_key(path))
        return ent[1] if ent else None

    def exists(self, path):
        return self._find(_key(path)) is not None

    def listing(self):
        return [ent[0] for ent in self.files]

    def now(self):
        return T0 + self.ops

    def put(self, path, data, mtime=None):
        """Test/harness set-up: create a file directly (no operation counted)."""
        path = _key(path)
        self._ino += 1
        ino = Inode(data, self.now() if mtime is None else mtime, self._ino)
        ent = self._find(path)
        if ent:
            ent[1] = ino
        else:
            self.files.append([path, ino])
        return ino

    def copy(self, src, dst):
        """What a MountedStore's copy function does: move bytes (not an operation of the store under test)."""
        if self.dead:
            raise Die()
        if self.hook is not None:
            self.hook(self, self.ops, "copy", src)  # an overlapping writer may run just before the copy
        s = self.lookup(src)
        if s is None:
            raise FileNotFoundError(2, "No such file or directory (model)", _key(src))
        self.ops += 1
        self.put(dst, s.data)

    def reboot(self):
        """A new process after a death: no faults any more, open file objects of the dead process are gone."""
        self.dead = False
        self.faults = []
        self.die_at = -1

    # -- fault points
    def op(self, kind, path):
        """Count one operation; raise Die / OSError if it is the chosen fault point."""
        if self.dead:
            raise Die()
        if self.hook is not None:
            self.hook(self, self.ops, kind, path)
        i = self.ops
        self.ops += 1
        if i == self.die_at:
            self.dead = True
            self.fired += 1
            self.oplog.append((i, kind, "die"))
            raise Die()
        if kind != "remove" and _hits(self.faults, i):
            self.fired += 1
            self.oplog.append((i, kind, "raise"))
            raise OSError(5, f"injected I/O error at operation {i} ({kind})", path)
        self.oplog.append((i, kind, "ok"))

    # -- replacements for builtins / os
    def open(self, path, mode="r", buffering=-1, encoding=None, errors=None, newline=None, closefd=True, opener=None):
        path = _key(path)
        m = "".join(sorted(set(mode) - {"t"}))
        binary = "b" in mode
        if binary and (encoding is not None or newline is not None):
            raise ValueError("binary mode doesn't take an encoding/newline argument")
        if errors not in (None, "strict"):
            raise ModelGap("errors= is not modelled")
        core = m.replace("b", "")
        if core == "r":
            if self.dead:
                raise Die()
            ino = self.lookup(path)
            if ino is None:
                raise FileNotFoundError(2, "No such file or directory (model)", path)
            return RFile(ino.data, binary, None if binary else norm_encoding(encoding), newline)
        if core not in ("w", "x", "a"):
            raise ModelGap(f"open mode {mode!r} is not modelled")
        enc = None if binary else norm_encoding(encoding)
        if not binary:
            translate_out("", newline)  # validates newline
        self.op("open", path)
        ent = self._find(path)
        if core == "x" and ent is not None:
            raise FileExistsError(17, "File exists (model)", path)
        if ent is None:
            ino = self.put(path, _EMPTY)
        else:
            ino = ent[1]
            if core == "w":
                ino.data, ino.mtime = _EMPTY, self.now()
        return WFile(self, ino, path, binary, enc, newline)

    def replace(self, src, dst):
        src, dst = _key(src), _key(dst)
        self.op("replace", src)
        ent = self._find(src)
        if ent is None:
            raise FileNotFoundError(2, "No such file or directory (model)", src)
        if src == dst:
            return
        self.files = [e for e in self.files if e[0] != dst and e[0] != src]
        self.files.append([dst, ent[1]])

    def remove(self, path):
        path = _key(path)
        self.op("remove", path)
        if self._find(path) is None:
            raise FileNotFoundError(2, "No such file or directory (model)", path)
        self.files = [e for e in self.files if e[0] != path]

    def getmtime(self, path):
        path = _key(path)
        if self.dead:
            raise Die()
        for p in self.inaccessible:
            if p == path:
                raise PermissionError(13, "Permission denied (model)", path)
        ino = self.lookup(path)
        if ino is None:
            raise FileNotFoundError(2, "No such file or directory (model)", path)
        return ino.mtime

    # -- tempfile.TemporaryDirectory
    def tempdir(self):
        return _TempDir(self)


class _TempDir:
    def __init__(self, fs):
        self.fs = fs
        fs._tmp += 1
        self.name = f"{ROOT}/tmp/d{fs._tmp}"

    def __enter__(self):
        return self.name

    def __exit__(self, *a):
        self.cleanup()
        return False

    def cleanup(self):
        if not self.fs.dead:
            pre = self.name + "/"
            self.fs.files = [e for e in self.fs.files if not e[0].startswith(pre)]


class WFile:
    def __init__(self, fs, ino, path, binary, encoding, newline):
        self.fs, self.ino, self.name, self.binary, self.encoding, self.newline = fs, ino, path, binary, encoding, newline
        self.mode = "wb" if binary else "w"
        self.closed = False
        self.pending = _EMPTY
        self.first = True  # utf-16: BOM goes out with the first write() call
        self.wrote = False  # a write() call happened since the last flush

    def writable(self):
        return True

    def readable(self):
        return False

    def _commit(self):
        # (no test for "nothing buffered": a test on a symbolic length would double the paths; the only difference is
        #  that a flush after write(b"") stamps the mtime, which can matter for append-mode writers only)
        if self.wrote:
            self.ino.data = _cat(self.ino.data, self.pending)
            self.ino.mtime = self.fs.now()
            self.pending = _EMPTY
            self.wrote = False

    def write(self, s):
        if self.closed:
            raise ValueError("I/O operation on closed file.")
        if self.binary:
            if isinstance(s, str):
                raise TypeError("a bytes-like object is required, not 'str'")
            data = s if isinstance(s, bytes) else bytes(s)
        else:
            if not isinstance(s, str):
                raise TypeError(f"write() argument must be str, not {type(s).__name__}")
            t = translate_out(s, self.newline)
            if self.encoding == "utf-16":
                data = enc_utf16(t, bom=self.first)
            else:
                data = _ENC[self.encoding](t)
        self.fs.op("write", self.name)
        self.first = False
        self.wrote = True
        self.pending = _cat(self.pending, data)
        if self.fs.eager:
            self._commit()
        return len(s)

    def flush(self):
        if self.closed:
            raise ValueError("I/O operation on closed file.")
        self.fs.op("flush", self.name)
        self._commit()

    def close(self):
        if self.closed:
            return
        self.closed = True  # as in CPython: a failing flush still closes the descriptor
        self.fs.op("close", self.name)
        self._commit()

    def __enter__(self):
        if self.closed:
            raise ValueError("I/O operation on closed file.")
        return self

    def __exit__(self, *a):
        self.close()
        return False


class RFile:
    def __init__(self, data, binary, encoding, newline):
        self.binary = binary
        self.closed = False
        self.pos = 0
        self.mode = "rb" if binary else "r"
        if binary:
            self.data = data
            self._text = None
        else:
            translate_in("", newline)  # validates newline
            self.data = None
            self._raw, self._enc, self._nl = data, encoding, newline
            self._text = None

    def readable(self):
        return True

    def writable(self):
        return False

    def _content(self):
        if self.binary:
            return self.data
        if self._text is None:
            self._text = translate_in(_DEC[self._enc](self._raw), self._nl)  # decode errors surface at read()
        return self._text

    def read(self, n=-1):
        if self.closed:
            raise ValueError("I/O operation on closed file.")
        c = self._content()
        if n is None or n < 0:
            out = c if self.pos == 0 else c[self.pos:]  # (no slice of a symbolic value when nothing was consumed)
            self.pos = len(c)
        else:
            out = c[self.pos:self.pos + n]
            self.pos += len(out)
        return out

    def readline(self, n=-1):
        if self.closed:
            raise ValueError("I/O operation on closed file.")
        c = self._content()
        nl = b"\n" if self.binary else "\n"
        j = c.find(nl, self.pos)
        end = len(c) if j < 0 else j + 1
        if n is not None and n >= 0:
            end = min(end, self.pos + n)
        out = c[self.pos:end]
        self.pos = end
        return out

    def write(self, s):
        import io

        raise io.UnsupportedOperation("not writable")

    def close(self):
        self.closed = True

    def __enter__(self):
        return self

    def __exit__(self, *a):
        self.close()
        return False


# ------------------------------------------------------------------------------------------------ installation
CUR = [None]  # the file system the patched names operate on (a ModelFS or a RealFS)


def cur():
    fs = CUR[0]
    if fs is None:
        raise ModelGap("no model file system is active")
    return fs


def use(fs):
    CUR[0] = fs
    return fs


def m_open(path, mode="r", buffering=-1, encoding=None, errors=None, newline=None, closefd=True, opener=None):
    return cur().open(path, mode, buffering, encoding, errors, newline, closefd, opener)


class _PathShim:
    def __getattr__(self, name):
        return getattr(_os.path, name)

    @staticmethod
    def getmtime(path):
        return cur().getmtime(path)

    @staticmethod
    def exists(path):
        return cur().exists(path)

    isfile = exists
    lexists = exists


class _OsShim:
    """Stands in for the `os` module inside uberjob.stores.*: file-system calls go to the model, the rest is real."""

    path = _PathShim()

    @staticmethod
    def stat(path, *a, **kw):
        """os.stat of a model file: size and modified time (os.path.getmtime is defined as os.stat(path).st_mtime)."""
        t = cur().getmtime(path)  # raises FileNotFoundError / PermissionError like os.path.getmtime
        return _os.stat_result((0o100644, 0, 0, 1, 0, 0, 0, int(t), int(t), int(t), float(t), float(t), float(t), int(t * 1e9), int(t * 1e9), int(t * 1e9)))

    lstat = stat

    def __getattr__(self, name):
        if name in ("utime", "truncate", "open", "link", "symlink", "listdir", "scandir", "mkdir",
                    "makedirs", "rmdir", "removedirs", "chmod", "access", "fsync", "write", "read", "close"):
            raise ModelGap(f"os.{name} is not modelled")
        return getattr(_os, name)

    @staticmethod
    def replace(src, dst, **kw):
        return cur().replace(src, dst)

    rename = replace  # POSIX rename over an existing file == replace

    @staticmethod
    def remove(path, **kw):
        return cur().remove(path)

    unlink = remove


class _TempfileShim:
    def __getattr__(self, name):
        raise ModelGap(f"tempfile.{name} is not modelled")

    @staticmethod
    def TemporaryDirectory(*a, **kw):
        return cur().tempdir()


OS_SHIM = _OsShim()
TEMPFILE_SHIM = _TempfileShim()
_installed = []


def _in_model(p):
    try:
        return CUR[0] is not None and str(p).startswith(ROOT + "/")
    except Exception:
        return False


def install():
    """Patch the uberjob.stores.* module namespaces (idempotent).  uberjob must already be importable from VERIF_SRC."""
    if _installed:
        return
    import importlib

    names = ["_file_store", "_text_file_store", "_binary_file_store", "_json_file_store", "_pickle_file_store",
             "_touch_file_store", "_mounted_store", "_path_source"]
    for n in names:
        mod = importlib.import_module("uberjob.stores." + n)
        mod.open = m_open
        if hasattr(mod, "os"):
            mod.os = OS_SHIM
        if hasattr(mod, "tempfile"):
            mod.tempfile = TEMPFILE_SHIM
        _installed.append(mod.__name__)
    P = pathlib.Path
    real = {k: getattr(P, k) for k in ("open", "unlink", "replace", "rename", "exists", "is_file")}

    def p_open(self, mode="r", buffering=-1, encoding=None, errors=None, newline=None):
        if _in_model(self):
            return m_open(self, mode, buffering, encoding, errors, newline)
        return real["open"](self, mode, buffering, encoding, errors, newline)

    def p_unlink(self, missing_ok=False):
        if not _in_model(self):
            return real["unlink"](self, missing_ok)
        try:
            cur().remove(self)
        except FileNotFoundError:
            if not missing_ok:
                raise

    def p_replace(self, target):
        if not _in_model(self):
            return real["replace"](self, target)
        cur().replace(self, target)
        return self.with_segments(target)

    def p_exists(self, **kw):
        if not _in_model(self):
            return real["exists"](self, **kw)
        return cur().exists(self)

    P.open, P.unlink, P.replace, P.rename, P.exists, P.is_file = p_open, p_unlink, p_replace, p_replace, p_exists, p_exists


# ------------------------------------------------------------------------------------------------ real mirror
class _Killed(BaseException):
    pass


class RealFS:
    """The same interface on the REAL file system (a private temporary directory), with the same operation numbering and
    fault injection; used concretely only (replays, validation) to check that ModelFS predicts what the real thing does.
      raise at open/replace/flush: OSError raised instead of the real call;
      raise at write (eager) / close: the descriptor is redirected to /dev/full first, so the real flush fails with
        a real ENOSPC and the buffered data is really lost;
      die: os._exit(0) -- the caller runs the faulty phase in a forked child."""

    kind = "real"

    def __init__(self, base, faults=(), die_at=-1, eager=False):
        self.base = base
        self.faults = list(faults)
        self.hook = None
        self.die_at = die_at
        self.eager = eager
        self.dead = False
        self.ops = 0
        self.fired = 0
        self.oplog = []
        self.inaccessible = []
        self._tmp = 0
        self.t = T0

    def real(self, path):
        path = _key(path)
        if not path.startswith(ROOT + "/"):
            raise ModelGap(f"path {path!r} outside the model root")
        rp = self.base + path[len(ROOT):]
        return rp

    def put(self, path, data, mtime=None):
        rp = self.real(path)
        _os.makedirs(_os.path.dirname(rp), exist_ok=True)
        with open(rp, "wb") as f:
            f.write(data)
        if mtime is not None:
            _os.utime(rp, (mtime, mtime))

    def exists(self, path):
        return _os.path.exists(self.real(path))

    def listing(self):
        out = []
        for d, _, fs in _os.walk(self.base):
            for f in fs:
                out.append(ROOT + _os.path.join(d, f)[len(self.base):])
        return sorted(out)

    def content(self, path):
        with open(self.real(path), "rb") as f:
            return f.read()

    def copy(self, src, dst):
        if self.hook is not None:
            self.hook(self, self.ops, "copy", src)
        data = self.content(src)
        self.ops += 1
        self.put(dst, data)

    def reboot(self):
        self.dead, self.faults, self.die_at = False, [], -1

    def op(self, kind, path):
        if self.hook is not None:
            self.hook(self, self.ops, kind, path)
        i = self.ops
        self.ops += 1
        if i == self.die_at:
            _os._exit(0)
        if kind != "remove" and _hits(self.faults, i):
            self.fired += 1
            self.oplog.append((i, kind, "raise"))
            return True
        self.oplog.append((i, kind, "ok"))
        return False

    def open(self, path, mode="r", buffering=-1, encoding=None, errors=None, newline=None, closefd=True, opener=None):
        rp = self.real(path)
        if "r" in mode:
            return open(rp, mode, buffering, encoding, errors, newline)
        if self.op("open", path):
            raise OSError(5, "injected I/O error (open)", _key(path))
        _os.makedirs(_os.path.dirname(rp), exist_ok=True)
        return _RealW(self, open(rp, mode, buffering, encoding, errors, newline), _key(path))

    def replace(self, src, dst):
        if self.op("replace", src):
            raise OSError(5, "injected I/O error (replace)", _key(src))
        _os.replace(self.real(src), self.real(dst))

    def remove(self, path):
        self.op("remove", path)
        _os.remove(self.real(path))

    def getmtime(self, path):
        for p in self.inaccessible:
            if p == _key(path):
                raise PermissionError(13, "Permission denied (injected)", _key(path))
        return _os.path.getmtime(self.real(path))

    def tempdir(self):
        self._tmp += 1
        d = f"{ROOT}/tmp/d{self._tmp}"
        _os.makedirs(self.real(d), exist_ok=True)
        return _RealTmp(self, d)


class _RealTmp:
    def __init__(self, fs, name):
        self.fs, self.name = fs, name

    def __enter__(self):
        return self.name

    def __exit__(self, *a):
        import shutil

        shutil.rmtree(self.fs.real(self.name), ignore_errors=True)
        return False


def _starve(f):
    """Make the next flush of this real file object fail for real: point its descriptor at /dev/full."""
    fd = _os.open("/dev/full", _os.O_WRONLY)
    try:
        _os.dup2(fd, f.fileno())
    finally:
        _os.close(fd)


class _RealW:
    def __init__(self, fs, f, name):
        self.fs, self.f, self.name = fs, f, name

    @property
    def closed(self):
        return self.f.closed

    def write(self, s):
        if self.f.closed:
            raise ValueError("I/O operation on closed file.")
        if isinstance(self.f, __import__("io").TextIOBase):
            if not isinstance(s, str):
                raise TypeError(f"write() argument must be str, not {type(s).__name__}")
            s.encode(self.f.encoding)  # the encoder runs (and may fail) before the operation counts
        elif isinstance(s, str):
            raise TypeError("a bytes-like object is required, not 'str'")
        if self.fs.op("write", self.name):
            raise OSError(5, "injected I/O error (write)", self.name)
        n = self.f.write(s)
        if self.fs.eager:
            self.f.flush()
        return n

    def flush(self):
        if self.fs.op("flush", self.name):
            _starve(self.f)
        self.f.flush()

    def close(self):
        if self.f.closed:
            return
        if self.fs.op("close", self.name):
            _starve(self.f)
            try:
                self.f.close()
            except OSError:
                raise
            raise OSError(5, "injected I/O error (close, nothing was buffered)", self.name)
        self.f.close()

    def __enter__(self):
        return self

    def __exit__(self, *a):
        self.close()
        return False


# ------------------------------------------------------------------------------------------------ validation
TRICKY = ["", "a", "\n", "\r", "\r\n", "\n\r", "a\rb", "a\r\nb\n", "\x00", "\x1a", "\x85", "  ", "\x0b\x0c",
          "\xe9", "\xff", "Ā", "߿ࠀ", "﻿", "￾", "￿", "\U00010000", "\U0010ffff",
          "a\U0001f600\r", "\ud800", "\udfff", "x\udc80y", "\x7f\x80", "\r\r\n\n", " \t", "  "]


def validate_codecs(stride=257):
    """Model codecs == CPython codecs: every boundary code point +-2, every `stride`-th code point, and on raw byte
    strings (valid and invalid) for the decoders.  Returns the number of comparisons; raises AssertionError."""
    import itertools

    n = 0
    bounds = [0, 0x7F, 0x80, 0xFF, 0x100, 0x7FF, 0x800, 0xD7FF, 0xD800, 0xDBFF, 0xDC00, 0xDFFF, 0xE000, 0xFEFF, 0xFFFE,
              0xFFFF, 0x10000, 0x10FFFF]
    cps = sorted({c + d for c in bounds for d in (-2, -1, 0, 1, 2) if 0 <= c + d <= 0x10FFFF} | set(range(0, 0x110000, stride)))
    real = {"utf-8": "utf-8", "latin-1": "latin-1", "ascii": "ascii", "utf-16": "utf-16"}
    for name, rn in real.items():
        for cp in cps:
            for s in (chr(cp), "a" + chr(cp), chr(cp) + "\n"):
                try:
                    want = s.encode(rn)
                except UnicodeEncodeError:
                    want = UnicodeEncodeError
                try:
                    got = _ENC[name](s)
                except UnicodeEncodeError:
                    got = UnicodeEncodeError
                assert got == want, (name, s, got, want)
                n += 1
                if want is not UnicodeEncodeError:
                    assert _DEC[name](want) == s, (name, s)
                    n += 1
    # decoders on arbitrary byte strings
    alphabet = [0x00, 0x41, 0x7F, 0x80, 0xBF, 0xC0, 0xC2, 0xDF, 0xE0, 0xED, 0xEF, 0xF0, 0xF4, 0xF5, 0xFF, 0xFE, 0xD8, 0xDC, 0xA0, 0x9F, 0x90, 0x8F]
    for L in range(0, 4):
        for tup in itertools.product(alphabet, repeat=L):
            b = bytes(tup)
            for name, rn in real.items():
                try:
                    want = b.decode(rn)
                except UnicodeDecodeError:
                    want = UnicodeDecodeError
                try:
                    got = _DEC[name](b)
                except UnicodeDecodeError:
                    got = UnicodeDecodeError
                assert got == want, (name, b, got, want)
                n += 1
    for tup in itertools.product([0xF0, 0xF4, 0x90, 0x8F, 0x80, 0xBF, 0xE0, 0xA0, 0xED, 0x9F, 0x41], repeat=4):
        b = bytes(tup)
        try:
            want = b.decode("utf-8")
        except UnicodeDecodeError:
            want = UnicodeDecodeError
        try:
            got = dec_utf8(b)
        except UnicodeDecodeError:
            got = UnicodeDecodeError
        assert got == want, (b, got, want)
        n += 1
    return n


def validate_against_real_fs():
    """ModelFS == the real file system on concrete inputs: text layer (encoding x newline x tricky strings, chunked
    writes), bytes, and the error behaviour of open/replace/remove/getmtime.  Returns the number of comparisons."""
    import tempfile

    n = 0
    with tempfile.TemporaryDirectory() as base:
        def both():
            return ModelFS(), RealFS(base)

        def outcome(fn):
            try:
                return ("ok", fn())
            except BaseException as e:  # noqa
                return ("exc", type(e).__name__)

        p = ROOT + "/v/f"
        q = ROOT + "/v/g"
        encs = [None, "utf-8", "latin-1", "utf-16", "ascii", "UTF8", "latin_1"]
        nls = [None, "", "\n", "\r", "\r\n"]
        for s in TRICKY:
            for enc in encs:
                for wnl in nls:
                    res = []
                    for fs in both():
                        def w(fs=fs):
                            with fs.open(p, "w", encoding=enc, newline=wnl) as f:
                                f.write(s)
                            with fs.open(p, "rb") as f:
                                return f.read()
                        o = outcome(w)
                        res.append(o)
                    assert res[0] == res[1], ("write", s, enc, wnl, res)
                    n += 1
                    if res[0][0] != "ok":
                        continue
                    for rnl in nls:
                        rr = []
                        for fs in both():
                            def r(fs=fs):
                                with fs.open(p, "w", encoding=enc, newline=wnl) as f:
                                    f.write(s)
                                with fs.open(p, "r", encoding=enc, newline=rnl) as f:
                                    return f.read()
                            rr.append(outcome(r))
                        assert rr[0] == rr[1], ("read", s, enc, wnl, rnl, rr)
                        n += 1
        # chunked writes (BOM once), empty writes, binary, read(n), readline
        for enc in [None, "utf-16", "latin-1"]:
            for chunks in (["", "a", "b"], ["a\r", "\nb"], [], [""], ["é", "\n"]):
                rr = []
                for fs in both():
                    def c(fs=fs):
                        with fs.open(p, "w", encoding=enc, newline="") as f:
                            for ch in chunks:
                                f.write(ch)
                        with fs.open(p, "rb") as f:
                            return f.read()
                    rr.append(outcome(c))
                assert rr[0] == rr[1], ("chunks", enc, chunks, rr)
                n += 1
        for data in (b"", b"\x00", b"a\r\nb\rc\n", bytes(range(256))):
            rr = []
            for fs in both():
                def b(fs=fs):
                    with fs.open(p, "wb") as f:
                        f.write(data)
                    with fs.open(p, "rb") as f:
                        first = f.read(1)
                        line = f.readline()
                        rest = f.read()
                    return (first, line, rest)
                rr.append(outcome(b))
            assert rr[0] == rr[1], ("binary", data, rr)
            n += 1
        # error behaviour
        for fs in both():
            for path in (p, q, p + ".STAGING"):
                try:
                    fs.remove(path)
                except OSError:
                    pass
        scripts = {
            "read_missing": lambda fs: fs.open(q, "r"),
            "readb_missing": lambda fs: fs.open(q, "rb"),
            "remove_missing": lambda fs: fs.remove(q),
            "replace_missing": lambda fs: fs.replace(q, p),
            "getmtime_missing": lambda fs: fs.getmtime(q),
            "write_str_to_binary": lambda fs: fs.open(p, "wb").write("x"),
            "write_bytes_to_text": lambda fs: fs.open(p, "w").write(b"x"),
            "binary_with_encoding": lambda fs: fs.open(p, "wb", encoding="utf-8"),
            "bad_newline": lambda fs: fs.open(p, "w", newline="x"),
            "unencodable": lambda fs: fs.open(p, "w", encoding="latin-1").write("Ā"),
            "surrogate": lambda fs: fs.open(p, "w", encoding="utf-8").write("\ud800"),
        }
        for name, fn in scripts.items():
            rr = [outcome(lambda fs=fs: (fn(fs), None)[1]) for fs in both()]
            assert rr[0] == rr[1], (name, rr)
            n += 1
        # replace: atomic move of the inode, mtime travels, target replaced, source gone; remove; getmtime
        rr = []
        for fs in both():
            fs.put(p, b"old", T0 - 100)
            fs.put(q, b"new", T0 - 50)
            fs.replace(q, p)
            with fs.open(p, "rb") as f:
                d = f.read()
            rr.append((d, fs.exists(q), fs.getmtime(p) == T0 - 50))
            fs.remove(p)
            rr.append((fs.exists(p),))
        assert rr[0:2] == rr[2:4], ("replace", rr)
        n += 2
        # rename before close: later flush lands in the moved inode; truncation keeps the inode
        rr = []
        for fs in both():
            fs.put(p, b"old", T0 - 100)
            f = fs.open(q, "wb")
            f.write(b"data")
            fs.replace(q, p)
            with fs.open(p, "rb") as g:
                before = g.read()
            f.close()
            with fs.open(p, "rb") as g:
                after = g.read()
            rr.append((before, after, fs.exists(q)))
            fs.remove(p)
        assert rr[0] == rr[1] == (b"", b"data", False), ("rename-before-close", rr)
        n += 1
        # a failed close loses the buffered data and still closes the file (real: ENOSPC from /dev/full)
        rr = []
        for mk in (lambda: ModelFS(faults=[2]), lambda: RealFS(base, faults=[2])):
            fs = mk()
            f = fs.open(p, "wb")
            f.write(b"data")
            o = outcome(f.close)
            with fs.open(p, "rb") as g:
                d = g.read()
            rr.append((o[0], o[1] if o[0] == "exc" else None, d, f.closed))
            _os.remove(fs.real(p)) if fs.kind == "real" else None
        assert rr[0] == rr[1] == ("exc", "OSError", b"", True), ("failed close", rr)
        n += 1
    return n
