"""E1 lemma for C07: cycles are rejected up front.

  c07_kahn   the real uberjob._util.networkx_util.topological_sort / assert_acyclic (Kahn's algorithm) on a symbolic digraph
             (one bool per ordered pair, optional self loops, optional parallel edges): raises HasACycle iff the harness'
             transitive closure has a node that reaches itself; otherwise yields every node exactly once with every edge
             pointing forward.  This is the contract the E2 engine model assumes for `assert_acyclic(graph)`.
  c07_run    the real uberjob.run on a 3-call plan with symbolic argument edges (i<j) and symbolic add_dependency edges in
             ANY direction, with or without a registry (XH_REG): a cycle among the nodes the run has to examine (ancestors
             of the output; with a registry: the whole plan) is reported as an error before any call executes or any store
             is accessed; without such a cycle the run succeeds with the from-scratch value.
Case split (environment): XH_TN (3 | 4), XH_SELF (0 | 1: self loops allowed), XH_MULTI (0 | 1: every present edge doubled),
XH_REG (0 | 1 | 2 = an empty Registry object), XH_TOUT (last | none).
"""
import os

import networkx as nx

import world as W
from world import begin, ok

W.install_engine()
import uberjob  # noqa: E402
from uberjob._util.networkx_util import assert_acyclic, topological_sort  # noqa: E402
from uberjob.graph import Dependency, Graph  # noqa: E402

TN = int(os.environ.get("XH_TN", "3"))
SELF = os.environ.get("XH_SELF", "0") == "1"
MULTI = os.environ.get("XH_MULTI", "0") == "1"
REG = os.environ.get("XH_REG", "0") == "1"
EMPTY_REG = os.environ.get("XH_REG", "0") == "2"  # an empty Registry() object (falsy: len 0), no store
TOUT = os.environ.get("XH_TOUT", "last")
PAIRS = [(i, j) for i in range(TN) for j in range(TN) if i != j or SELF]
assert len(PAIRS) <= 12


class Nd:
    def __init__(self, i):
        self.i = i

    def __repr__(self):
        return f"n{self.i}"


def _closure(n, edges):
    r = [[False] * n for _ in range(n)]
    for (i, j) in edges:
        r[i][j] = True
    for k in range(n):
        for i in range(n):
            if r[i][k]:
                for j in range(n):
                    if r[k][j]:
                        r[i][j] = True
    return r


def c07_kahn(b0: bool, b1: bool, b2: bool, b3: bool, b4: bool, b5: bool, b6: bool, b7: bool, b8: bool, b9: bool, b10: bool, b11: bool) -> bool:
    """
    post: _
    """
    begin()
    bits = [b0, b1, b2, b3, b4, b5, b6, b7, b8, b9, b10, b11]
    for k in range(len(PAIRS), 12):
        if bits[k]:
            return True
    edges = [PAIRS[k] for k in range(len(PAIRS)) if bits[k]]
    nodes = [Nd(i) for i in range(TN)]
    g = Graph()
    for n in nodes:
        g.add_node(n)
    for (i, j) in edges:
        g.add_edge(nodes[i], nodes[j], Dependency())
        if MULTI:
            g.add_edge(nodes[i], nodes[j], uberjob.graph.PositionalArg(0))
    R = _closure(TN, edges)
    cyclic = any(R[i][i] for i in range(TN))
    try:
        order = list(topological_sort(g))
        raised = False
    except nx.HasACycle:
        raised = True
    if raised != cyclic:
        return False
    try:
        assert_acyclic(g)
        raised2 = False
    except nx.HasACycle:
        raised2 = True
    if raised2 != cyclic:
        return False
    if not cyclic:
        if len(order) != TN:
            return False
        pos = {}
        for k, n in enumerate(order):
            if n.i in pos:
                return False
            pos[n.i] = k
        for (i, j) in edges:
            if not pos[i] < pos[j]:
                return False
    return ok()


def c07_run(a01: bool, a02: bool, a12: bool, d01: bool, d10: bool, d02: bool, d20: bool, d12: bool, d21: bool, s0: bool, s1: bool, s2: bool) -> bool:
    """
    post: _
    """
    begin()
    if not SELF and (s0 or s1 or s2):
        return True
    w = W.World(W.NOW)
    plan = uberjob.Plan()
    reg = uberjob.Registry() if (REG or EMPTY_REG) else None
    arg = {(0, 1): a01, (0, 2): a02, (1, 2): a12}
    dep = {(0, 1): d01, (1, 0): d10, (0, 2): d02, (2, 0): d20, (1, 2): d12, (2, 1): d21, (0, 0): s0, (1, 1): s1, (2, 2): s2}
    nodes, stores = [], []
    for j in range(3):
        args = [nodes[i] for i in range(j) if arg[(i, j)]]
        node = plan.call(W.mk_fn(j, w), *args)
        nodes.append(node)
        if REG:
            st = W.LStore(j, False, 0, None, w)
            reg.add(node, st)
            stores.append(st)
    edges = [e for e, v in arg.items() if v]
    for (i, j), v in dep.items():
        if v:
            plan.add_dependency(nodes[i], nodes[j])
            edges.append((i, j))
    R = _closure(3, edges)
    out_idx = None if TOUT == "none" else 2
    if REG:
        examined = [0, 1, 2]
    elif out_idx is None:
        examined = []
    else:
        examined = [j for j in range(3) if j == out_idx or R[j][out_idx]]
    cyclic = any(R[i][i] for i in examined)
    try:
        res = uberjob.run(plan, registry=reg, output=None if out_idx is None else nodes[out_idx], progress=None, max_workers=1)
        raised = False
    except uberjob.CallError:
        return False  # nothing here fails by itself
    except nx.HasACycle:
        raised = True
    if raised != cyclic:
        return False
    if raised:
        if w.log or w.ops:
            return False  # something executed / a store was accessed before the cycle was reported
        return ok()

    def val(j):
        return (j,) + tuple(val(i) for i in range(j) if arg[(i, j)])

    if out_idx is not None and res != val(out_idx):
        return False
    return ok()


# ----------------------------------------------------------------------------------------------- error reporting terminates
from uberjob._util.traceback import StackFrame, TruncatedStackFrame, render_symbolic_traceback  # noqa: E402

R_PATHS = ["/home/u/job.py", "/site-packages/IPython/core/interactiveshell.py", "<ipython-input-3-abc>", "/site-packages/uberjob/_plan.py"]


class Budget(Exception):
    pass


class _Reads:
    n = 0


class BFrame(StackFrame):
    """A StackFrame whose `path` / `outer` reads are counted: rendering a chain of n frames reads each a bounded number of times."""

    __slots__ = ()

    def _count(self):
        _Reads.n += 1
        if _Reads.n > 200:
            raise Budget()

    @property
    def path(self):
        self._count()
        return StackFrame.path.__get__(self)

    @path.setter
    def path(self, v):
        StackFrame.path.__set__(self, v)

    @property
    def outer(self):
        self._count()
        return StackFrame.outer.__get__(self)

    @outer.setter
    def outer(self, v):
        StackFrame.outer.__set__(self, v)


def c07_render(n: int, k0: int, k1: int, k2: int, trunc: bool, fail: bool) -> bool:
    """
    "run returns or raises in finite time ... for every failure pattern" includes the work done to REPORT a failure: the symbolic
    traceback of the failed call is rendered from the recorded call-site frames.  Frames (innermost first) with paths from
    R_PATHS (user file, IPython's own machinery, a notebook cell, uberjob itself), optionally ending in the truncation marker:
    the real render_symbolic_traceback, and the real run of a plan whose failing call carries that chain, finish within a
    fixed budget of frame reads (200 for <= 3 frames) -- a loop that stops advancing along the chain exceeds any budget.

    pre: 1 <= n <= 3 and 0 <= k0 <= 3 and 0 <= k1 <= 3 and 0 <= k2 <= 3
    post: _
    """
    begin()
    kinds = [k0, k1, k2][:n]
    chain = TruncatedStackFrame if trunc else None
    for i in reversed(range(len(kinds))):
        chain = BFrame(name=f"fn{i}", path=R_PATHS[kinds[i]], line=10 + i, outer=chain)
    _Reads.n = 0
    try:
        text = render_symbolic_traceback(chain)
    except Budget:
        return False
    if not text.startswith("Symbolic traceback"):
        return False
    w = W.World(W.NOW)
    plan = uberjob.Plan()

    def boom(*a):
        if fail:
            raise ValueError("boom")
        return 1

    a = plan.call(W.mk_fn(0, w))
    b = plan.call(boom, a)
    b.stack_frame = chain
    _Reads.n = 0
    try:
        uberjob.run(plan, output=b, progress=None, max_workers=1)
        raised = False
    except Budget:
        return False
    except uberjob.CallError as e:
        raised = True
        if e.call is not b:
            return False
    if raised != fail:
        return False
    return ok()
