"""E1 harnesses for the progress properties.

C15  progress observers receive an exact, well-formed account
       c15_run        real uberjob.run (sequential engine stand-in) with a recording ProgressObserver: plan shape, failing
                      operation index, registry on/off, composite on/off are the concrete case split; store state
                      (present flags, modified times, fresh_time) and the user scope values are symbolic
       c15_composite  symbolic notification sequence (<= 4) sent to the real CompositeProgressObserver of 2-3 recorders
       c15_enter_fail a member raising in __enter__
C20  bundled displays render every reachable state without raising
       c20_kinds      symbolic scope tuples (int / str / Opaque by symbolic kind code), concrete count patterns
       c20_counts     concrete mixed scope tuples, symbolic counts under the C15-legal invariant
       c20_elapsed    get_elapsed_string against an independent decomposition
"""
import datetime as _real_dt
import os
import sys
import traceback
from typing import List

import world as W
from world import begin, ok

W.install_engine()
import uberjob  # noqa: E402
import uberjob.progress._console_progress_observer as _CON  # noqa: E402
import uberjob.progress._html_progress_observer as _HTM  # noqa: E402
import uberjob.progress._ipython_progress_observer as _IPY  # noqa: E402
import uberjob.progress._simple_progress_observer as _SPO  # noqa: E402
from uberjob.progress import Progress, ProgressObserver  # noqa: E402
from uberjob.progress._composite_progress_observer import CompositeProgressObserver  # noqa: E402

SHAPE = W.shape_from_env() if os.environ.get("XH_SHAPE") else None
CUT = int(os.environ.get("XH_CUT", "-1"))
NOREG = os.environ.get("XH_NOREG") == "1"
COMPOSITE = os.environ.get("XH_COMPOSITE") == "1"
PRESENT = os.environ.get("XH_PRESENT")


# ============================================================================================== C15
class Rec(ProgressObserver):
    """Recording observer: appends every notification, verbatim, to its own log (and to an optional shared log)."""

    def __init__(self, idx=0, shared=None, raise_in_enter=False):
        self.idx, self.log, self.shared, self.raise_in_enter = idx, [], shared, raise_in_enter

    def _add(self, ev):
        self.log.append(ev)
        if self.shared is not None:
            self.shared.append((self.idx,) + ev)

    def __enter__(self):
        self._add(("enter",))
        if self.raise_in_enter:
            raise EnterBoom(self.idx)

    def __exit__(self, exc_type, exc_val, exc_tb):
        self._add(("exit", exc_type))

    def increment_total(self, *, section, scope, amount):
        self._add(("total", section, scope, amount))

    def increment_running(self, *, section, scope):
        self._add(("running", section, scope))

    def increment_completed(self, *, section, scope):
        self._add(("completed", section, scope))

    def increment_failed(self, *, section, scope, exception):
        self._add(("failed", section, scope, exception))


class EnterBoom(Exception):
    pass


def _mk_fn(j, world):
    def f(*a, **kw):
        world.op(("c", j))
        world.log.append(("c", j))
        return (j,) + a

    # every call of the plan shares one display name, so that two calls are in the same progress scope exactly when
    # their (symbolic) user scopes are equal
    f.__name__ = f.__qualname__ = "f"
    f.__module__ = "hp"
    return f


FN = "hp.f"  # what the property calls "function name": module + qualified name
RD, WR, ST, SRC = "world.LStore.read", "world.LStore.write", "world.LStore", "source"


def build_scoped(shape, world, P, TT, SC, registry=True):
    """world.build with every node created inside `with plan.scope(*SC[j])` (the last node inside two nested scopes)."""
    b = W.Built()
    b.plan, b.reg = uberjob.Plan(), uberjob.Registry()
    b.nodes, b.stores = [], []
    for j in range(shape.n):
        role = shape.roles[j]
        args = [i for i, k in shape.preds[j] if k == "a"]
        st = None
        sc = SC[j]
        with b.plan.scope(*sc[:1]):
            with b.plan.scope(*sc[1:]):
                if role == "src" and registry:
                    st = W.LStore(j, P[j], TT[j], ("srcval", j), world)
                    node = b.reg.source(b.plan, st)
                else:
                    node = b.plan.call(_mk_fn(j, world), *[b.nodes[i] for i in args])
                    if role == "store" and registry:
                        st = W.LStore(j, P[j], TT[j], ("old", j), world)
                        b.reg.add(node, st)
        b.nodes.append(node)
        b.stores.append(st)
    for (i, j, k) in shape.edges:
        if k == "d":
            b.plan.add_dependency(b.nodes[i], b.nodes[j])
    return b


def _run_key(shape, SC, kind, j, registry=True):
    """Independent oracle: progress scope of the call behind a world-log event (user scope + function name)."""
    if kind == "c":
        return SC[j] + (FN,)
    name = RD if kind == "r" else WR
    return SC[j] + (_fn_name(shape, j, registry), name)


def _fn_name(shape, j, registry=True):
    # a Registry.source node is a call of uberjob's own placeholder function `source`
    return SRC if (shape.roles[j] == "src" and registry) else FN


def _stale_key(shape, SC, j):
    return SC[j] + (_fn_name(shape, j),) + ((ST,) if shape.registered[j] else ())


def _count(keys):
    d = {}
    for k in keys:
        d[k] = d.get(k, 0) + 1
    return d


def account(events, sequential=True):
    """Well-formedness of one observer's notification log, exactly as C15 states it.  Returns None when the log is
    ill-formed, else (total, completed, failed) dictionaries keyed by (section, scope)."""
    if len(events) < 2 or events[0] != ("enter",) or events[-1][0] != "exit":
        return None  # entered first, exited last
    tot, comp, fail, runn = {}, {}, {}, {}
    open_key = None
    for e in events[1:-1]:
        kind = e[0]
        if kind not in ("total", "running", "completed", "failed"):
            return None  # a second enter / exit
        key = (e[1], e[2])
        if e[1] not in ("stale", "run") or type(e[2]) is not tuple:
            return None
        if kind == "total":
            if not e[3] >= 1:
                return None
            tot[key] = tot.get(key, 0) + e[3]
        elif kind == "running":
            if key not in tot:
                return None  # totals are announced before anything in the scope is reported running
            if sequential and open_key is not None:
                return None
            open_key = key
            runn[key] = runn.get(key, 0) + 1
        else:
            if runn.get(key, 0) < 1:
                return None  # a close without an open
            if sequential and open_key != key:
                return None
            open_key = None
            runn[key] -= 1
            if kind == "completed":
                comp[key] = comp.get(key, 0) + 1
            else:
                if not isinstance(e[3], Exception):
                    return None
                fail[key] = fail.get(key, 0) + 1
        if comp.get(key, 0) + fail.get(key, 0) + runn.get(key, 0) > tot.get(key, 0):
            return None  # the invariant the displays rely on (C20)
    for key in runn:
        if runn[key] != 0:
            return None  # nothing is reported running when run returns
    return tot, comp, fail


def _section(d, section):
    return {k[1]: v for k, v in d.items() if k[0] == section}


def _pin(s, lo, hi):
    """Case split inside the path: afterwards the value is a plain Python int on every path (cheap hashing)."""
    for v in range(lo, hi):
        if s == v:
            return v
    return hi


def _scopes(s0, s1, s2, s3, n):
    # node 0 keeps the fixed user scope (0,): the run only hashes / compares scope values, so with two values every
    # partition of the nodes into <= 2 scope classes is still reached (stated as a bound in the evidence)
    SC = [(0,)] + [(_pin(s, 0, 1),) for s in (s1, s2, s3)[: n - 1]]
    SC[n - 1] = (SC[n - 1][0], SC[0][0])  # nested plan.scope for the last node
    return SC


def c15_run(p0: bool, t0: int, p1: bool, t1: int, p2: bool, t2: int, p3: bool, t3: int, hf: bool, ft: int,
            s0: int, s1: int, s2: int, s3: int) -> bool:
    """
    pre: t0 != t1 and t0 != t2 and t0 != t3 and t1 != t2 and t1 != t3 and t2 != t3
    pre: ft != t0 and ft != t1 and ft != t2 and ft != t3
    pre: t0 < 1000000000 and t1 < 1000000000 and t2 < 1000000000 and t3 < 1000000000 and ft < 1000000000
    pre: 0 <= s0 <= 1 and 0 <= s1 <= 1 and 0 <= s2 <= 1 and 0 <= s3 <= 1
    post: _
    """
    begin()
    sh = SHAPE
    registry = not NOREG
    P = [p0, p1, p2, p3][: sh.n]
    if PRESENT:  # optional concrete case split of the present flags: '0' / '1' / '?' (symbolic) per node
        P = [(c == "1") if c in "01" else p for c, p in zip(PRESENT, P)]
    TT = [t0, t1, t2, t3][: sh.n]
    SC = _scopes(s0, s1, s2, s3, sh.n)
    w = W.World(W.NOW, CUT, "raise")
    b = build_scoped(sh, w, P, TT, SC, registry)
    recs = [Rec(0), Rec(1)] if COMPOSITE else [Rec(0)]
    if COMPOSITE:
        progress = (Progress(lambda: recs[0]), Progress(lambda: recs[1]))  # run() builds the composite itself
    else:
        progress = Progress(lambda: recs[0])
    out = b.nodes[sh.out] if sh.out is not None else None
    failed = False
    try:
        uberjob.run(b.plan, registry=b.reg if registry else None, output=out, progress=progress, max_workers=1,
                    fresh_time=W.FT(ft) if (hf and registry) else None)
    except uberjob.CallError as e:
        if not isinstance(e.__cause__, (W.Cut, W.Empty)):
            return False
        failed = True
    if CUT >= 0 and not failed:
        return True  # fewer than CUT operations on this path: covered by the condition without a failure
    ev = recs[0].log
    if COMPOSITE and not _same_log(recs[1].log, ev):
        return False  # composite observers forward every notification to every member
    acc = account(ev)
    if acc is None:
        return False
    tot, comp, fail = acc
    want_stale = _count(_stale_key(sh, SC, j) for j in range(sh.n)) if registry else {}
    if _section(tot, "stale") != want_stale:
        return False  # 'stale' totals = the calls of the logical plan, each in its stale scope
    executed = _count(_run_key(sh, SC, k, j, registry) for (k, j) in w.log if k in ("c", "r", "w"))
    if not failed:
        if fail:
            return False
        if comp != tot:
            return False  # after a successful run completed == total in every scope
        if _section(tot, "run") != executed:
            return False  # 'run' totals = calls executed with that scope
        return ok()
    # ---- failed run: exactly the failing operation is reported failed, everything else that started completed
    kind, j = w.optags[-1]
    kind = {"wb": "w", "wa": "w"}.get(kind, kind)
    if kind == "m":
        want_fail = {("stale", _stale_key(sh, SC, j)): 1}
    else:
        want_fail = {("run", _run_key(sh, SC, kind, j, registry)): 1}
    if fail != want_fail:
        return False
    if kind == "m":
        if _section(tot, "run"):
            return False  # the run phase never started
    else:
        if _section(comp, "stale") != want_stale:
            return False
        done = dict(executed)
        fk = _run_key(sh, SC, kind, j, registry)
        # the failing operation is in the log when it raised after being logged (a read of a missing value), and a
        # write that was cut after the value was stored is logged too: neither completed
        if (kind, j) in w.log and (kind != "c"):
            done[fk] -= 1
            if done[fk] == 0:
                del done[fk]
        if _section(comp, "run") != done:
            return False
        for key, v in _section(tot, "run").items():
            if comp.get(("run", key), 0) + fail.get(("run", key), 0) > v:
                return False
    return ok()


def _same_log(a, b):
    if len(a) != len(b):
        return False
    for x, y in zip(a, b):
        if len(x) != len(y) or x[0] != y[0]:
            return False
        for u, v in zip(x[1:], y[1:]):
            if isinstance(u, BaseException) or isinstance(v, BaseException):
                if u is not v:
                    return False
            elif u != v:
                return False
    return True


# --------------------------------------------------------------------------------------------- C15 composite
MEMBERS = int(os.environ.get("XH_MEMBERS", "2"))
BODY_RAISE = os.environ.get("XH_BODY_RAISE") == "1"
NMIN, NMAX = int(os.environ.get("XH_NMIN", "0")), int(os.environ.get("XH_NMAX", "4"))
KFIRST = int(os.environ.get("XH_KFIRST", "-1"))  # optional case split on the first notification kind
_FAIL_EXC = ValueError("reported failure")


class BodyBoom(Exception):
    pass


def c15_composite(n: int, k0: int, x0: int, k1: int, x1: int, k2: int, x2: int, k3: int, x3: int,
                  amount: int, stale: bool) -> bool:
    """
    A symbolic sequence of n <= 4 notifications (kind k_i: 0 total / 1 running / 2 completed / 3 failed; scope value x_i;
    symbolic amount and section) sent to the real CompositeProgressObserver of XH_MEMBERS recording members.

    pre: 0 <= NMIN <= n <= NMAX <= 4
    pre: 0 <= k0 <= 3 and 0 <= k1 <= 3 and 0 <= k2 <= 3 and 0 <= k3 <= 3
    pre: KFIRST < 0 or k0 == KFIRST
    post: _
    """
    begin()
    shared = []
    members = [Rec(i, shared) for i in range(MEMBERS)]
    comp = CompositeProgressObserver(iter(members))
    section = "stale" if stale else "run"
    sent = []
    raised = False
    try:
        with comp:
            for (k, x) in [(k0, x0), (k1, x1), (k2, x2), (k3, x3)][:n]:
                scope = (x, "f")
                if k == 0:
                    comp.increment_total(section=section, scope=scope, amount=amount)
                    sent.append(("total", section, scope, amount))
                elif k == 1:
                    comp.increment_running(section=section, scope=scope)
                    sent.append(("running", section, scope))
                elif k == 2:
                    comp.increment_completed(section=section, scope=scope)
                    sent.append(("completed", section, scope))
                else:
                    comp.increment_failed(section=section, scope=scope, exception=_FAIL_EXC)
                    sent.append(("failed", section, scope, _FAIL_EXC))
            if BODY_RAISE:
                raise BodyBoom()
    except BodyBoom:
        raised = True
    if raised != BODY_RAISE:
        return False
    want = [("enter",)] + sent + [("exit", BodyBoom if BODY_RAISE else None)]
    for m in members:
        if not _same_log(m.log, want):
            return False  # every member received exactly what was sent, in order, between one enter and one exit
    # entered in member order, exited in reverse member order, every notification in between
    heads = [(e[0], e[1]) for e in shared[:MEMBERS]]
    tails = [(e[0], e[1]) for e in shared[len(shared) - MEMBERS:]]
    if heads != [(i, "enter") for i in range(MEMBERS)]:
        return False
    if tails != [(i, "exit") for i in reversed(range(MEMBERS))]:
        return False
    if len(shared) != MEMBERS * (len(sent) + 2):
        return False
    return ok()


def c15_cfail(rk: int, dep: bool, reg: bool) -> bool:
    """
    A call that fails inside a C-implemented callable (no Python frame of its own in the traceback), under every way of
    giving `retry`: the observer still gets exactly one 'failed' for the one 'running' of that call, is exited once and
    last, and run raises CallError with the very exception.  rk: 0 no retry, 1 retry=2, 2 a custom decorator that returns the
    function unchanged, 3 a custom decorator that wraps it (retries twice).

    pre: 0 <= rk <= 3
    post: _
    """
    begin()
    import operator

    from uberjob._util.retry import create_retry

    w = W.World(W.NOW)
    plan = uberjob.Plan()
    a = plan.call(_mk_fn(0, w))
    b_ = plan.call(operator.truediv, 1, 0)  # ZeroDivisionError raised by C code
    if dep:
        plan.add_dependency(a, b_)
    registry = None
    if reg:
        registry = uberjob.Registry()
        registry.add(a, W.LStore(0, False, 0, None, w))
    retry = [None, 2, (lambda f: f), (lambda f: create_retry(2)(f))][rk]
    rec = Rec()
    try:
        uberjob.run(plan, registry=registry, output=[a, b_], retry=retry, progress=Progress(lambda: rec), max_workers=1)
        return False
    except uberjob.CallError as e:
        if e.call is not b_ or not isinstance(e.__cause__, ZeroDivisionError):
            return False
    except Exception:
        return False  # nothing but CallError may come out of a run whose call failed
    acc = account(rec.log, sequential=True)
    if acc is None:
        return False
    tot, comp, fail = acc
    failed_keys = [k for k, v in fail.items() if v]
    if len(failed_keys) != 1 or failed_keys[0][0] != "run" or fail[failed_keys[0]] != 1:
        return False
    return ok()


def c15_enter_fail(m: int, r: int) -> bool:
    """
    Member r of m raises in __enter__: the composite's __enter__ raises that error, the members entered before it are
    exited (once each, in reverse order), the later ones are never entered.

    pre: 2 <= m <= 3 and 0 <= r < m
    post: _
    """
    begin()
    m, r = _pin(m, 2, 3), _pin(r, 0, 2)
    shared = []
    members = [Rec(i, shared, raise_in_enter=(i == r)) for i in range(m)]
    comp = CompositeProgressObserver(members)
    try:
        comp.__enter__()
        return False
    except EnterBoom as e:
        if e.args != (r,):
            return False
    want = [(i, "enter") for i in range(r + 1)] + [(i, "exit") for i in reversed(range(r))]
    if [(e[0], e[1]) for e in shared] != want:
        return False
    for e in shared:
        if e[1] == "exit" and e[2] is not EnterBoom:
            return False  # the members that are unwound see the error
    return ok()


# ============================================================================================== C20
# ---- environment models (installed identically for symbolic runs and concrete replays)
class _FixedClock:
    @staticmethod
    def time():
        return 1000.0


class _FixedDatetime:
    @staticmethod
    def utcnow():
        return _real_dt.datetime(2021, 2, 3, 4, 5, 6)


class _FixedDatetimeModule:
    datetime = _FixedDatetime


class Buf:
    """Model of io.StringIO as the console observer uses it (context manager, write, getvalue)."""

    def __init__(self):
        self.value = ""

    def __enter__(self):
        return self

    def __exit__(self, *a):
        return False

    def write(self, s):
        self.value = self.value + s
        return len(s)

    def getvalue(self):
        return self.value


def print_model(*args, sep=" ", end="\n", file=None, flush=False):
    """Model of builtins.print(file=...): CrossHair 0.0.110 realises print's arguments and copies the file object."""
    file.write(sep.join([str(a) for a in args]) + end)


_REAL = {"con_print": print, "con_StringIO": _CON.StringIO, "con_dt": _CON.dt, "htm_dt": _HTM.dt, "ipy_dt": _IPY.dt,
         "spo_time": _SPO.time}


def install_models(on=True):
    _CON.print = print_model if on else _REAL["con_print"]
    _CON.StringIO = Buf if on else _REAL["con_StringIO"]
    _SPO.time = _FixedClock if on else _REAL["spo_time"]
    for mod, key in ((_CON, "con_dt"), (_HTM, "htm_dt"), (_IPY, "ipy_dt")):
        mod.dt = _FixedDatetimeModule if on else _REAL[key]


install_models()

try:  # the notebook front end is outside uberjob: display() is a no-op here
    import IPython.display as _ipd

    _ipd.display = lambda *a, **k: None
    import ipywidgets as _ipw  # noqa: F401

    HAVE_IPY = True
except Exception:  # pragma: no cover
    HAVE_IPY = False

try:
    import crosshair.core_and_libs  # noqa: F401  (loads the patch registrations)
    from crosshair import core as _xc
    from crosshair.libimpl import builtinslib as _xb
    from crosshair.tracers import NoTracing as _NoTracing
    from crosshair.tracers import is_tracing as _is_tracing

    _orig_format = _xc._PATCH_REGISTRATIONS[format]

    def _sym_format(obj, format_spec=""):
        """CrossHair's format() realises ints (one path per value).  For symbolic ints and the two specs uberjob uses
        ('' and '02') build the decimal digits symbolically instead (SymbolicInt.__repr__); symbolic floats (the HTML
        bar widths, never inspected) become '?'.  Concrete values are untouched."""
        with _NoTracing():
            is_int = isinstance(obj, _xb.SymbolicInt) and type(format_spec) is str and format_spec in ("", "02")
            is_float = isinstance(obj, _xb.SymbolicFloat)
        if is_int:
            s = obj.__repr__()
            if format_spec == "02" and len(s) < 2:
                s = "0" + s
            return s
        if is_float:
            return "?"
        return _orig_format(obj, format_spec)

    _xc._PATCH_REGISTRATIONS[format] = _sym_format

    _realize = _xc.realize  # identity on concrete values

    def _points(s):
        """Code points of a concrete or CrossHair string as a list of int / SymbolicInt (call untraced); None = unknown."""
        if type(s) is str:
            return [ord(ch) for ch in s]
        if isinstance(s, _xb.LazyIntSymbolicStr) and not isinstance(s._codepoints, _xb.SymbolicBoundedIntTuple):
            return list(s._codepoints)
        return None

    def contains(hay, needle):
        """`needle in hay`, fast for a long, mostly concrete CrossHair string: positions that are ruled out by two
        concrete characters are skipped natively; the remaining candidates are compared symbolically (traced) exactly
        as CrossHair's own AbcString.partition does.  Validated against `in` by the condition c20_contains_model."""
        if not _is_tracing():
            return needle in hay
        with _NoTracing():
            h, n = _points(hay), _points(needle)
            cands = None
            if h is not None and n is not None and len(n) > 0:
                k = len(n)
                cands = [i for i in range(len(h) - k + 1)
                         if all(type(a) is not int or type(b) is not int or a == b for a, b in zip(h[i:i + k], n))]
        if cands is None:
            return needle in hay
        for i in cands:
            if all(a == b for a, b in zip(h[i:i + k], n)):
                return True
        return False

    def _untraced():
        return _NoTracing() if _is_tracing() else W._Null()

except ImportError:  # plain concrete run without crosshair installed

    def _realize(x):
        return x

    def _untraced():
        return W._Null()

    def contains(hay, needle):
        return needle in hay


class Opaque:
    """Hashable and equatable -- all that Plan.scope asks for -- but neither orderable nor given a __str__."""

    def __init__(self, i):
        self.i = i

    def __eq__(self, o):
        return type(o) is Opaque and o.i == self.i

    def __hash__(self):
        return 7


OPAQUES = [Opaque(0), Opaque(1)]
STRS = ["a.b", "<&"]  # '.' takes the zero-width-space branch, '<' '&' need HTML escaping; no lone surrogates (see assumptions)
ELAPSED = 3725.5


def _mk_exc(i):
    try:
        try:
            raise KeyError("inner %d" % i)
        except KeyError as inner:
            err = uberjob.CallError.__new__(uberjob.CallError)
            Exception.__init__(err, "An exception was raised in a symbolic call <%d>." % i)
            raise err from inner
    except Exception as e:
        return (type(e), e, e.__traceback__)


EXCS = [_mk_exc(0), _mk_exc(1)]
for _e in EXCS:  # warm linecache so that rendering a traceback does no file I/O under CrossHair
    traceback.format_exception(*_e)

# concrete count patterns (completed, failed, running, total, weighted_elapsed, expected progress string, expected elapsed string)
PATTERNS = [
    (0, 0, 0, 2, 0, "0 / 2", "0s"),
    (1, 0, 1, 3, 5.5, "(1 + 1) / 3", "5s"),
    (2, 0, 0, 2, 65.2, "2 / 2", "1m05s"),
    (1, 1, 0, 2, 3725.9, "1 / 2, 1 failed", "1h02m05s"),
    (0, 1, 2, 4, 59.99, "(0 + 2) / 4, 1 failed", "59s"),
]


def _esc(s):
    out = ""
    for ch in s:
        out += {"&": "&amp;", "<": "&lt;", ">": "&gt;", '"': "&quot;", "'": "&#x27;"}.get(ch, ch)
    return out


def _scope_str(scope, zw=False):
    out = ""
    for i, v in enumerate(scope):
        out += (", " if i else "") + str(v)
    return out.replace(".", "\u200b.") if zw else out


def _rj(s, w):
    return " " * (w - len(s)) + s


def _digits(x):
    return f"{x}"


def progress_parts(c, f, r, t):
    """From the display's documented format: 'c / t' when nothing started or everything finished, '(c + r) / t' while
    in progress; ', f failed' appended when there are failures."""
    if c + f + r == 0 or c + f == t:
        base = _digits(c) + " / " + _digits(t)
    else:
        base = "(" + _digits(c) + " + " + _digits(r) + ") / " + _digits(t)
    return base, ((", " + _digits(f) + " failed") if f >= 1 else "")


def progress_oracle(c, f, r, t):
    base, suffix = progress_parts(c, f, r, t)
    return base + suffix


# which renderers c20_counts runs: c(onsole, traced) h(tml document builder, traced) u(ntraced: HtmlProgressObserver._render
# incl. utf-8 encoding and IPythonProgressObserver._render on the realised counts -- realising makes the solver enumerate
# the count values one by one, so 'u' conditions carry a small XH_MAXT)
OBS = os.environ.get("XH_OBS", "ch")


def _check_renderings(state, want, excs, nei, native=False):
    """state: section -> {scope: ScopeState}; want: section -> {scope: (progress string, elapsed string, progress string
    without the failure suffix, failed count)}.
    Calls the three real _render methods; False when one raises or a scope's line is missing.
    native=True: nothing symbolic is left (every code was pinned by a case split): run everything untraced."""
    if native:
        with _untraced():
            return _check_console(state, want, excs, nei) and _check_html(state, want, excs) and \
                _check_untraced(state, excs, nei)
    if "c" in OBS and not _check_console(state, want, excs, nei):
        return False
    if "h" in OBS and not _check_html(state, want, excs):
        return False
    if "u" in OBS:
        with _untraced():
            return _check_untraced(state, excs, nei)
    return True


KW = dict(initial_update_delay=0, min_update_interval=0, max_update_interval=0)


def _check_console(state, want, excs, nei):
    kw = KW
    # ---- console (traced)
    con = _CON.ConsoleProgressObserver(**kw)
    try:
        text = con._render(state, nei, excs, ELAPSED)
        con._render(state, len(excs), excs, ELAPSED + 1)  # a later rendering of the same state
    except Exception:
        return False
    if "uberjob, elapsed 1h02m05s, updated 2021-02-03 04:05:06\n" not in text:
        return False
    for section in ("stale", "run"):
        rows = want.get(section)
        if not rows:
            continue
        wp = max(len(v[0]) for v in rows.values())
        we = max(len(v[1]) for v in rows.values())
        if (section + ":\n") not in text:
            return False
        for scope, (ps, es, _base, _f) in rows.items():
            if ("  " + _rj(ps, wp) + " | " + _rj(es, we) + " | " + _scope_str(scope) + "\n") not in text:
                return False
    if ("new exceptions:\n" in text) != (nei < len(excs)):
        return False
    for i in range(nei, len(excs)):
        if ("  exception %d; %s\n" % (i + 1, _scope_str(excs[i][0]))) not in text:
            return False
    return True


def _check_html(state, want, excs):
    # the document builder (traced when counts are symbolic); the observer's own _render = builder + utf-8 encoding
    # runs in _check_untraced on the realised state
    try:
        doc = _HTM._render_html(state, excs, ELAPSED)
    except Exception:
        return False
    for section in ("stale", "run"):
        for scope, (ps, es, base, f) in (want.get(section) or {}).items():
            if not contains(doc, base):  # digits, blanks and ( + ) / only: nothing for HTML escaping to change
                return False
            if f >= 1 and not contains(doc, ">" + _digits(f) + " failed</span>"):
                return False
            if not contains(doc, "<td>" + _esc(_scope_str(scope, zw=True)) + "</td>"):
                return False
    for i in range(len(excs)):
        if not contains(doc, "Exception %d; %s\n" % (i + 1, _esc(_scope_str(excs[i][0])))):
            return False
    return True


def _check_untraced(state, excs, nei):
    kw = KW
    cstate = {sec: {sc: _SPO.ScopeState(completed=_realize(s.completed), failed=_realize(s.failed),
                                        running=_realize(s.running), total=_realize(s.total),
                                        weighted_elapsed=s.weighted_elapsed) for sc, s in m.items()}
              for sec, m in state.items()}
    cnei = _realize(nei)
    sink = []
    htm = _HTM.HtmlProgressObserver(sink.append, **kw)
    try:
        data = htm._render(cstate, cnei, excs, ELAPSED)
        htm._output(data)
    except Exception:
        return False
    if type(data) is not bytes or sink != [data] or b"<title>uberjob</title>" not in data:
        return False
    # ---- IPython widgets (ipywidgets / traitlets run untraced on the realised state)
    if HAVE_IPY:
        ipy = _IPY.IPythonProgressObserver(**kw)
        try:
            ipy._render(cstate, cnei, excs, ELAPSED)
            ipy._render(cstate, len(excs), excs, ELAPSED + 1)
        except Exception:
            return False
        for section, m in cstate.items():
            for scope, s in m.items():
                label = ipy._widget_cache[("section", section, "scope", scope, "label")].value
                bar = ipy._widget_cache[("section", section, "scope", scope, "progress")]
                ps = progress_oracle(s.completed, s.failed, s.running, s.total)
                if not label.startswith(ps + "; ") or not label.endswith("; " + _scope_str(scope, zw=True)):
                    return False
                if bar.max != s.total or bar.value != s.completed + s.failed:
                    return False
    return True


# ---- c20_kinds: symbolic scope tuples
NSC = int(os.environ.get("XH_N", "2"))
LENS = [int(c) for c in os.environ.get("XH_LENS", "22")]
K0 = os.environ.get("XH_K0")  # optional concrete kinds of the first scope's elements, e.g. "02"
NEXC = int(os.environ.get("XH_NEXC", "0"))
PAT = int(os.environ.get("XH_PAT", "0"))
STALE = os.environ.get("XH_STALE", "1") == "1"


def _elem(kind, v):
    if kind == 0:
        return v
    if kind == 1:
        return STRS[v]
    return OPAQUES[v]


def c20_kinds(k00: int, v00: int, k01: int, v01: int, k10: int, v10: int, k11: int, v11: int,
              k20: int, v20: int, k21: int, v21: int, nei: int) -> bool:
    """
    XH_N scopes in the 'run' section, scope i a tuple of XH_LENS[i] elements, element = int / str / Opaque by symbolic
    kind code (0/1/2) with symbolic value index (0/1); counts from the concrete pattern table.

    pre: 0 <= k00 <= 2 and 0 <= k01 <= 2 and 0 <= k10 <= 2 and 0 <= k11 <= 2 and 0 <= k20 <= 2 and 0 <= k21 <= 2
    pre: 0 <= v00 <= 1 and 0 <= v01 <= 1 and 0 <= v10 <= 1 and 0 <= v11 <= 1 and 0 <= v20 <= 1 and 0 <= v21 <= 1
    pre: 0 <= nei <= NEXC
    post: _
    """
    begin()
    nei = _pin(nei, 0, NEXC)
    ks = [[k00, k01], [k10, k11], [k20, k21]]
    vs = [[v00, v01], [v10, v11], [v20, v21]]
    if K0:
        ks[0] = [int(c) for c in K0] + [0, 0]
    run, want = {}, {}
    for i in range(NSC):
        scope = tuple(_elem(_pin(ks[i][e], 0, 2), _pin(vs[i][e], 0, 1)) for e in range(LENS[i]))
        c, f, r, t, we, ps, es = PATTERNS[(i + PAT) % len(PATTERNS)]
        run[scope] = _SPO.ScopeState(completed=c, failed=f, running=r, total=t, weighted_elapsed=we)
        want[scope] = (ps, es, ps.split(", ")[0], f)  # equal tuples collapse into one scope, as in the real State
    state, wants = {"run": run}, {"run": want}
    if STALE:
        c, f, r, t, we, ps, es = PATTERNS[(PAT + 2) % len(PATTERNS)]
        sscope = tuple(run)[0] + (ST,)
        state["stale"] = {sscope: _SPO.ScopeState(completed=c, failed=f, running=r, total=t, weighted_elapsed=we)}
        wants["stale"] = {sscope: (ps, es, ps.split(", ")[0], f)}
    excs = [(tuple(run)[j % len(run)], EXCS[j]) for j in range(NEXC)]
    if not _check_renderings(state, wants, excs, nei, native=True):
        return False
    return ok()


# ---- c20_counts: symbolic counts
MAXT = int(os.environ.get("XH_MAXT", "9"))
NSYM = int(os.environ.get("XH_NSYM", "3"))
COUNT_SCOPES = [(0, "a.b"), (OPAQUES[0], "<&"), (OPAQUES[1],)]
COUNT_ELAPSED = [(0, "0s"), (65.2, "1m05s"), (5.5, "5s")]


def c20_counts(c0: int, f0: int, r0: int, t0: int, c1: int, f1: int, r1: int, t1: int,
               c2: int, f2: int, r2: int, t2: int, nei: int) -> bool:
    """
    XH_N concrete scopes (mixed kinds, two unorderable Opaques) with symbolic counts under the C15-legal invariant.

    pre: 1 <= t0 <= MAXT and 0 <= c0 and 0 <= f0 and 0 <= r0 and c0 + f0 + r0 <= t0
    pre: 1 <= t1 <= MAXT and 0 <= c1 and 0 <= f1 and 0 <= r1 and c1 + f1 + r1 <= t1
    pre: 1 <= t2 <= MAXT and 0 <= c2 and 0 <= f2 and 0 <= r2 and c2 + f2 + r2 <= t2
    pre: 0 <= nei <= NEXC
    post: _
    """
    begin()
    nei = _pin(nei, 0, NEXC) if ("c" in OBS or "u" in OBS) else 0  # the HTML document shows every exception
    cnt = [(c0, f0, r0, t0), (c1, f1, r1, t1), (c2, f2, r2, t2)]
    for i in range(NSYM, NSC):  # scopes beyond the first XH_NSYM take concrete counts from the pattern table
        cnt[i] = PATTERNS[(i + PAT) % len(PATTERNS)][:4]
    run, want = {}, {}
    for i in range(NSC):
        c, f, r, t = cnt[i]
        if "h" in OBS and i < NSYM:
            # the HTML bar widths are 100 * count / total: a symbolic divisor makes the path condition nonlinear (z3 gives
            # up, CrossHair reports 'Not confirmed'), so the total is case split inside the path for the HTML builder
            t = _pin(t, 1, MAXT)
            cnt[i] = (c, f, r, t)
        we, es = COUNT_ELAPSED[i]
        run[COUNT_SCOPES[i]] = _SPO.ScopeState(completed=c, failed=f, running=r, total=t, weighted_elapsed=we)
        base, suffix = progress_parts(c, f, r, t)
        want[COUNT_SCOPES[i]] = (base + suffix, es, base, f)
    state, wants = {"run": run}, {"run": want}
    if STALE:
        sscope = (FN, ST)
        c0, f0, r0, t0 = cnt[0]
        state["stale"] = {sscope: _SPO.ScopeState(completed=c0, failed=f0, running=r0, total=t0, weighted_elapsed=0)}
        base, suffix = progress_parts(c0, f0, r0, t0)
        wants["stale"] = {sscope: (base + suffix, "0s", base, f0)}
    excs = [(COUNT_SCOPES[j % NSC], EXCS[j]) for j in range(NEXC)]
    if not _check_renderings(state, wants, excs, nei):
        return False
    return ok()


# ---- c20_elapsed
MAXE = int(os.environ.get("XH_MAXE", "35999999"))


def _two(x):
    return f"{x:02}"


def c20_elapsed(e: int) -> bool:
    """
    get_elapsed_string(e) == hours 'h' minutes(2) 'm' seconds(2) 's' with leading zero units dropped, where
    hours*3600 + minutes*60 + seconds == e, 0 <= minutes, seconds < 60 -- for every 0 <= e <= XH_MAXE.

    pre: 0 <= e <= MAXE
    post: _
    """
    begin()
    got = _SPO.get_elapsed_string(e)
    # independent decomposition: seconds first by subtraction, then minutes from the minute count
    whole_minutes = e // 60
    s = e - 60 * whole_minutes
    h = whole_minutes // 60
    m = whole_minutes - 60 * h
    if not (0 <= s < 60 and 0 <= m < 60 and h >= 0 and h * 3600 + m * 60 + s == e):
        return False
    if h >= 1:
        want = _digits(h) + "h" + _two(m) + "m" + _two(s) + "s"
    elif m >= 1:
        want = _digits(m) + "m" + _two(s) + "s"
    else:
        want = _digits(s) + "s"
    if got != want:
        return False
    return ok()


def c20_contains_model(a: int, b: int, c: int, pick: int) -> bool:
    """
    The harness' fast substring test agrees with CrossHair's own `in` on strings with symbolic digits.

    pre: 0 <= a <= 9 and 0 <= b <= 9 and 0 <= c <= 9 and 0 <= pick <= 3
    post: _
    """
    begin()
    hay = "<td>" + _digits(a) + " / " + _digits(b) + "</td><td>(" + _digits(b) + " + " + _digits(c) + ") / 7</td>"
    needle = [_digits(a) + " / " + _digits(b), "(" + _digits(c) + " + " + _digits(c) + ") / 7", _digits(c) + " / 7<",
              "1 / 2"][_pin(pick, 0, 3)]
    if contains(hay, needle) != (needle in hay):
        return False
    return ok()


def c20_format_model(x: int, two: bool) -> bool:
    """
    The symbolic stand-in for format(int, '') / format(int, '02') under CrossHair agrees with CPython's on the realised value.

    pre: 0 <= x <= 120
    post: _
    """
    begin()
    sym = _two(x) if two else _digits(x)
    with _untraced():
        cx = _realize(x)
        if _realize(sym) != (format(cx, "02") if _realize(two) else format(cx, "")):
            return False
    return ok()


# ============================================================================================== concrete sanity (no CrossHair)
class StateObs(_SPO.SimpleProgressObserver):
    """The library's own State bookkeeping (update thread running, nothing rendered)."""

    def __init__(self):
        super().__init__(initial_update_delay=3600, min_update_interval=3600, max_update_interval=3600)

    def _render(self, state, new_exception_index, exception_tuples, elapsed):
        return None

    def _output(self, value):
        pass


def _sanity_c15():
    import itertools

    import shapes
    import uberjob._execution.run_function_on_graph as rfg

    global SHAPE
    n_state = n_engine = 0
    for sh in shapes.QUICK:
        SHAPE = sh
        n = sh.n
        for P in itertools.product([False, True], repeat=n):
            P = [P[j] or (sh.roles[j] == "src" and not sh.preds[j]) for j in range(n)]
            for TT in ([10, 20, 30, 40][:n], [40, 30, 20, 10][:n]):
                for S in ((0, 0, 0), (0, 1, 0), (1, 1, 0)):
                    SC = _scopes(0, *S, n)
                    logs = []
                    for engine, workers in (("seq", 1), ("real", 1), ("real", 2)):
                        W._caching.run_function_on_graph = W.seq_engine if engine == "seq" else getattr(rfg, "_verif_real_engine", rfg.run_function_on_graph)
                        W._rp.run_function_on_graph = W.seq_engine if engine == "seq" else getattr(rfg, "_verif_real_engine", rfg.run_function_on_graph)
                        w = W.World(W.NOW)
                        b = build_scoped(sh, w, list(P), list(TT), SC)
                        rec, so = Rec(), StateObs()
                        uberjob.run(b.plan, registry=b.reg, output=b.nodes[sh.out] if sh.out is not None else None,
                                    progress=(Progress(lambda: rec), Progress(lambda: so)), max_workers=workers)
                        acc = account(rec.log, sequential=(engine == "seq"))
                        assert acc is not None, (sh.name, P, TT, S, engine, rec.log)
                        tot, comp, fail = acc
                        # (a) the harness' reading of the log == the library's own State after the same notifications
                        lib = {(sec, sc): (s.total, s.completed, s.failed, s.running)
                               for sec, m in so._state.section_scope_mapping.items() for sc, s in m.items()}
                        mine = {k: (tot[k], comp.get(k, 0), fail.get(k, 0), 0) for k in tot}
                        assert lib == mine, (sh.name, lib, mine)
                        n_state += 1
                        logs.append(sorted((e[:3] for e in rec.log[1:-1]), key=repr))
                    # (b) the sequential stand-in produces the same notifications as the real engine (any order)
                    assert logs[0] == logs[1] == logs[2], (sh.name, P, TT, S)
                    n_engine += 2
    W.install_engine()
    return {"recorder_vs_library_State": n_state, "seq_engine_vs_real_engine_runs": n_engine}


def _sanity_c20():
    import io

    n_models = n_misc = 0
    kw = KW
    states = []
    for pat in range(len(PATTERNS)):
        run = {}
        for i, sc in enumerate(COUNT_SCOPES):
            c, f, r, t, we, _ps, _es = PATTERNS[(i + pat) % len(PATTERNS)]
            run[sc] = _SPO.ScopeState(completed=c, failed=f, running=r, total=t, weighted_elapsed=we)
        states.append({"run": run, "stale": {(FN, ST): _SPO.ScopeState(completed=1, total=1)}})
    for st in states:
        for excs in ([], [(COUNT_SCOPES[0], EXCS[0])], [(COUNT_SCOPES[0], EXCS[0]), (COUNT_SCOPES[1], EXCS[1])]):
            for nei in range(len(excs) + 1):
                install_models(True)
                a = _CON.ConsoleProgressObserver(**kw)._render(st, nei, excs, ELAPSED)
                install_models(False)
                _CON.dt = _FixedDatetimeModule  # keep the date fixed; print / StringIO / time are the real ones now
                assert _CON.print is print and _CON.StringIO is io.StringIO
                b = _CON.ConsoleProgressObserver(**kw)._render(st, nei, excs, ELAPSED)
                install_models(True)
                assert a == b and len(a) > 40, (a, b)
                n_models += 1
    # Opaque really is unorderable / hashable / equatable, with the default str()
    try:
        sorted(OPAQUES)
        raise AssertionError("Opaque is orderable")
    except TypeError:
        pass
    assert OPAQUES[0] != OPAQUES[1] and OPAQUES[0] == Opaque(0) and len({OPAQUES[0], Opaque(0), OPAQUES[1]}) == 2
    assert str(OPAQUES[0]).startswith("<") and "Opaque object at" in str(OPAQUES[0])
    n_misc += 3
    # float inputs of get_elapsed_string are truncated first: same string as the int
    for e in list(range(0, 7300, 7)) + [35999, 36000, 359999, 86399, 35999999]:
        for frac in (0.0, 0.25, 0.999):
            assert _SPO.get_elapsed_string(e + frac) == _SPO.get_elapsed_string(e), e
            n_misc += 1
    # pattern table: the literal expected strings are what the oracle functions compute
    for c, f, r, t, we, ps, es in PATTERNS:
        assert progress_oracle(c, f, r, t) == ps
        n_misc += 1
    return {"print_StringIO_models_vs_real": n_models, "opaque_float_pattern_checks": n_misc, "ipywidgets": HAVE_IPY}


def sanity(pid):
    import json

    print(json.dumps(_sanity_c15() if pid == "C15" else _sanity_c20()))
