"""E1 harnesses for C19 (a failure is attributed to the user line that created the failing symbolic call).

c19_attr     real Plan / Registry / uberjob.run (sequential engine stand-in) on ONE plan that contains every kind of
             symbolic call (source, user call, registry.add, implicit gather via positional / keyword / nested keyword
             argument, explicit gather, unpack), each created on its own source line of `_site`, which itself runs
             d helper frames deep.  Exactly one operation is made to fail (XH_FAULT, the concrete case split); whether
             that operation is reached at all (value out of date or not) follows from the symbolic store state.
             The oracle is taken with sys._getframe ON THE CREATING LINE ITSELF (same source line, `_snap(), <create>`),
             so it is correct whatever lies below the harness on the stack (CrossHair's frames / the replay script).
             XH_BASE=fresh builds the plan on a brand-new stack (a new thread whose bottom frame is `_fresh_bottom`):
             the real stack then has exactly d+2 (d+3 for the source line) frames, so depths shallower than, equal to
             and deeper than the limit are all reached.  XH_BASE=inline builds it on top of the caller's stack.
c19_render   render_symbolic_traceback alone on a chain with symbolic names / paths / lines / length, an
             '/IPython/core/' frame at a symbolic position and the truncation marker present or not.
"""
import os
import sys
import _thread

import world as W
from world import begin, ok

W.install_engine()
import uberjob  # noqa: E402
from uberjob import _builtins  # noqa: E402
from uberjob._util.traceback import (  # noqa: E402
    MAX_TRACEBACK_DEPTH,
    StackFrame,
    TruncatedStackFrame,
    render_symbolic_traceback,
)

LIMIT = MAX_TRACEBACK_DEPTH + 1  # number of real frames kept ("the fixed depth limit")
FAULT = os.environ.get("XH_FAULT", "call")
BASE = os.environ.get("XH_BASE", "fresh")
FAULTS = ("call", "gpos", "gkw", "gnest", "gexp", "unpack", "addw", "addr", "srcr", "addm", "srcm")
DMAX = 6
HEADER = "Symbolic traceback (most recent call last):"


class Boom(Exception):
    """The injected failure; args[0] is the tag of the operation that failed."""


class Empty(Exception):
    pass


class Unhashable:
    """A value that cannot be put in a set / used as a dict key: hashing it raises the tagged failure."""

    def __init__(self, tag):
        self.tag = tag

    def __eq__(self, o):
        return self is o

    def __hash__(self):
        raise Boom(self.tag)


class FStore(uberjob.ValueStore):
    """In-memory store with a logical time and injectable failures (concrete per condition)."""

    def __init__(self, name, present, t, val, fail):
        self.name, self.present, self.t, self.val, self.fail = name, present, t, val, fail
        self.log = []

    def read(self):
        self.log.append("r")
        if self.fail == "r":
            raise Boom(("r", self.name))
        if not self.present:
            raise Empty(self.name)
        return self.val

    def write(self, v):
        self.log.append("w")
        if self.fail == "w":
            raise Boom(("w", self.name))
        self.val, self.present, self.t = v, True, W.NOW + 1

    def get_modified_time(self):
        self.log.append("m")
        if self.fail == "m":
            raise Boom(("m", self.name))
        return W.T(self.t) if self.present else None


# ------------------------------------------------------------------------------------------ oracle helpers
def _snap():
    """The complete real stack of the caller, innermost first: (co_name, co_filename, f_lineno)."""
    f = sys._getframe(1)
    out = []
    while f is not None:
        out.append((f.f_code.co_name, f.f_code.co_filename, f.f_lineno))
        f = f.f_back
    return out


def _observe(sf):
    """Walk a stack_frame chain completely: (frames innermost first, marker seen, well formed)."""
    frames, trunc, n = [], False, 0
    while sf is not None:
        if sf is TruncatedStackFrame:
            trunc = True
            break
        if type(sf) is not StackFrame:
            return frames, trunc, False
        frames.append((sf.name, sf.path, sf.line))
        sf = sf.outer
        n += 1
        if n > 64:
            return frames, trunc, False
    return frames, trunc, True


def render_oracle(frames, truncated):
    """Property text: frames outermost first, '... truncated' first when truncated; IPython's own frames (and
    everything outside them) are not shown."""
    vis, cut = [], False
    for fr in frames:
        if "/IPython/core/" in fr[1]:
            cut = True
            break
        vis.append(fr)
    lines = [HEADER]
    if truncated and not cut:
        lines.append("  ... truncated")
    for i in range(len(vis) - 1, -1, -1):
        name, path, line = vis[i]
        lines.append('  File "' + path + '", line ' + str(line) + ", in " + name)
    return lines


# ------------------------------------------------------------------------------------------ the user's program
class Rec:
    pass


def consume(*a, **k):
    return ("consumed", len(a), len(k))


def _mk_source(R):
    # a helper function that builds part of the plan on behalf of its caller: one frame deeper than `_site`
    R.s_src, R.src = _snap(), R.reg.source(R.plan, R.S0)


def _site(R):
    """The user's plan-building function.  Every creating call shares its source line with the `_snap()` that
    records the real stack (tuple on one line => identical f_lineno)."""
    plan, reg = uberjob.Plan(), uberjob.Registry()
    R.plan, R.reg = plan, reg
    _mk_source(R)
    R.s_a, R.a = _snap(), plan.call(R.fa, R.src)
    R.s_add, _ = _snap(), reg.add(R.a, R.S1)
    R.bp, R.bk, R.bn, R.be, R.c = plan.call(R.fbp), plan.call(R.fbk), plan.call(R.fbn), plan.call(R.fbe), plan.call(R.fc)
    R.s_gpos, R.gpos = _snap(), plan.call(consume, {R.bp})
    R.s_gkw, R.gkw = _snap(), plan.call(consume, items={R.bk})
    R.s_gnest, R.gnest = _snap(), plan.call(consume, 1, table=[{R.bn: "v"}])
    R.s_gexp, R.gexp = _snap(), plan.gather({R.be})
    R.s_unp, R.unp = _snap(), plan.unpack(R.c, 2)
    R.out = [R.a, R.gpos, R.gkw, R.gnest, R.gexp, R.unp[0], R.unp[1]]


def _nest(k, R):
    # k >= 1 helper frames around the user's function
    if k == 1:
        return _site(R)
    return _nest(k - 1, R)


def _fresh_bottom(k, R, lock):
    # bottom frame of a brand-new stack (f_back is None)
    try:
        _site(R) if k == 0 else _nest(k, R)
    except BaseException as e:  # noqa: B036 - reported to the creating thread
        R.err = e
    finally:
        lock.release()


def _build_fresh(k, R):
    """Build the plan on a new stack.  Everything in there is concrete; tracing is switched off meanwhile because
    CrossHair's sys.monitoring probes are global and its tracer state is not thread safe."""
    R.err = None
    with W.nxpatch_notrace():
        lock = _thread.allocate_lock()
        lock.acquire()
        _thread.start_new_thread(_fresh_bottom, (k, R, lock))
        lock.acquire()
    if R.err is not None:
        raise R.err


def _mk_fn(tag, fault, good, bad):
    def f(*a):
        if fault == "raise":
            raise Boom(tag)
        return bad if fault == "bad" else good

    f.__name__ = f.__qualname__ = "user_" + tag
    return f


def make_world(fault, p1, t0, t1, store_cls=None):
    R = Rec()
    mk = store_cls or FStore
    R.S0 = mk(0, True, t0, "srcval", {"srcr": "r", "srcm": "m"}.get(fault))
    R.S1 = mk(1, p1, t1, ("a", "srcval"), {"addw": "w", "addr": "r", "addm": "m"}.get(fault))
    def user_a(x):
        if fault == "call":
            raise Boom("a")
        return ("a", x)

    R.fa = user_a
    R.fbp = _mk_fn("bp", "bad" if fault == "gpos" else None, 1, Unhashable("bp"))
    R.fbk = _mk_fn("bk", "bad" if fault == "gkw" else None, 2, Unhashable("bk"))
    R.fbn = _mk_fn("bn", "bad" if fault == "gnest" else None, 3, Unhashable("bn"))
    R.fbe = _mk_fn("be", "bad" if fault == "gexp" else None, 4, Unhashable("be"))
    R.fc = _mk_fn("c", "bad" if fault == "unpack" else None, (7, 8), (7, 8, 9))
    return R


def expected_failure(fault, R, stale1):
    """(snapshot of the creating line, predicate on CallError.call, expected cause tag or exception type) or None
    when the faulty operation is not needed by this run (property text, one clause per kind)."""
    is_node = lambda n: (lambda c: c is n)  # noqa: E731
    has_fn = lambda fn: (lambda c: c.fn is fn and not _is_user_node(c, R))  # noqa: E731
    if fault == "call":  # the plan.call line
        return (R.s_a, is_node(R.a), "a") if stale1 else None
    if fault == "gpos":  # implicit gather of a structured positional argument: the plan.call line
        return R.s_gpos, has_fn(_builtins.gather_set), "bp"
    if fault == "gkw":  # ... of a structured keyword argument
        return R.s_gkw, has_fn(_builtins.gather_set), "bk"
    if fault == "gnest":  # ... nested inside a keyword argument (dict key inside a list)
        return R.s_gnest, has_fn(_builtins.gather_dict), "bn"
    if fault == "gexp":  # the plan.gather line (plan.gather returns the gather call itself)
        return R.s_gexp, (lambda c: c is R.gexp and c.fn is _builtins.gather_set), "be"
    if fault == "unpack":  # the plan.unpack line
        return R.s_unp, has_fn(_builtins.unpack), ValueError
    if fault == "addw":  # failed store write: the registry.add line
        return (R.s_add, has_fn(FStore.write), ("w", 1)) if stale1 else None
    if fault == "addr":  # failed read-back (after a rebuild) or read (value up to date): the registry.add line
        return R.s_add, has_fn(FStore.read), ("r", 1)
    if fault == "srcr":  # failed source read: the registry.source line
        return (R.s_src, has_fn(FStore.read), ("r", 0)) if stale1 else None
    if fault == "addm":  # failed modified-time query: the line that created the examined node (the plan.call line)
        return R.s_a, is_node(R.a), ("m", 1)
    if fault == "srcm":  # ... on a source: the node was created by the registry.source line
        return R.s_src, is_node(R.src), ("m", 0)
    raise AssertionError(fault)


def _is_user_node(c, R):
    for n in (R.src, R.a, R.bp, R.bk, R.bn, R.be, R.c, R.gpos, R.gkw, R.gnest, R.gexp, R.unp[0], R.unp[1]):
        if c is n:
            return True
    return False


def check_error(e, exp):
    """The whole oracle for one CallError against the snapshot taken on the creating line."""
    snapshot, call_ok, cause = exp
    if not call_ok(e.call):
        return False
    if isinstance(cause, type):
        if type(e.__cause__) is not cause:
            return False
    elif not (type(e.__cause__) is Boom and e.__cause__.args[0] == cause):
        return False
    frames, trunc, wf = _observe(e.call.stack_frame)
    if not wf:
        return False
    want = snapshot[:LIMIT]
    if len(frames) == 0 or frames[0] != snapshot[0]:
        return False  # innermost frame is the creating line
    if frames != want:
        return False  # then the enclosing frames, at most LIMIT of them
    if trunc != (len(snapshot) > LIMIT):
        return False  # marker iff frames were cut off (exactly LIMIT real frames: no marker)
    lines = str(e).split("\n")
    if not lines[0].startswith("An exception was raised in a symbolic call to "):
        return False
    if lines[1:] != render_oracle(want, len(snapshot) > LIMIT):
        return False
    return True


def c19_attr(d: int, p1: bool, t0: int, t1: int) -> bool:
    """
    pre: 0 <= d <= 6
    pre: t0 < 1000000000 and t1 < 1000000000
    post: _
    """
    begin()
    dc = -1
    for i in range(DMAX + 1):  # d is a small int: one path per value (exhausted path by path, not by the solver)
        if d == i:
            dc = i
            break
    if dc < 0:
        return True
    R = make_world(FAULT, p1, t0, t1)
    if BASE == "fresh":
        _build_fresh(dc, R)
        n_site, n_src = dc + 2, dc + 3
        if len(R.s_a) != n_site or len(R.s_src) != n_src or len(R.s_unp) != n_site:
            return False  # the fresh stack really has the advertised depth (validates the base)
    else:
        _site(R) if dc == 0 else _nest(dc, R)
    stale1 = (not p1) or t0 > t1  # S1 out of date: missing or older than the source it was computed from
    exp = expected_failure(FAULT, R, stale1)
    try:
        uberjob.run(R.plan, registry=R.reg, output=R.out, progress=None, max_workers=1)
    except uberjob.CallError as e:
        if exp is None:
            return False
        if not check_error(e, exp):
            return False
        # phase: a modified-time failure is raised by the stale check, before anything is read, written or called
        if FAULT in ("addm", "srcm") and ("r" in R.S0.log or "r" in R.S1.log or "w" in R.S1.log):
            return False
        return ok()
    if exp is not None:
        return False  # the faulty operation was needed: the run must have failed
    return True


# ------------------------------------------------------------------------------------------ render alone


RN = int(os.environ.get("XH_N", "3"))  # chain length (concrete case split 0..6)
C_NAMES = ["<module>", "f", "helper", "g", "<lambda>", "run_cell"]
C_PATHS = ["/p.py", "/q/r.py", "s", "<stdin>", "/IPython/x.py", "/core/t.py"]


def _render_ok(frames, trunc):
    chain = TruncatedStackFrame if trunc else None
    for i in range(len(frames) - 1, -1, -1):
        chain = StackFrame(name=frames[i][0], path=frames[i][1], line=frames[i][2], outer=chain)
    got = render_symbolic_traceback(chain)
    return got == "\n".join(render_oracle(frames, trunc))


def c19_render_pos(ip: int, trunc: bool, la: int) -> bool:
    """
    Chain of XH_N frames; symbolic: position of the IPython frame (none if outside the chain), marker, line numbers.

    pre: -1 <= ip <= 6
    pre: -2 <= la <= 10
    post: _
    """
    begin()
    lines = [la, la + 1, 10 - la, la + 95, la * 2, 7]  # int -> str is a C-level conversion: CrossHair realises la per path
    frames = []
    for i in range(RN):
        path = C_PATHS[i]
        if i == ip:
            path = "/site-packages/IPython/core/interactiveshell.py"
        frames.append((C_NAMES[i], path, lines[i]))
    if not _render_ok(frames, trunc):
        return False
    return ok()


def c19_render_text(k: int, rel: int, trunc: bool, na: str, pa: str, sa: str, la: int) -> bool:
    """
    Chain of XH_N frames; frame k has a symbolic name / path / line; an IPython frame (symbolic text around the
    '/IPython/core/' marker) sits at position k + rel (rel == 2: nowhere; rel == 0: frame k itself).

    pre: 0 <= k <= 5
    pre: -1 <= rel <= 2
    pre: len(na) <= 2 and len(pa) <= 2 and len(sa) <= 2
    pre: 0 <= la <= 3
    post: _
    """
    begin()
    if k >= RN:
        return True
    ip = -1 if rel == 2 else k + rel
    frames = []
    for i in range(RN):
        name, path, line = C_NAMES[i], C_PATHS[i], 10 + i
        if i == k:
            name, path, line = na, pa, la
        if i == ip:
            path = (pa if i == k else "/x") + "/IPython/core/" + sa
        frames.append((name, path, line))
    if not _render_ok(frames, trunc):
        return False
    return ok()
