"""E1 harnesses for C19 (a failure is attributed to the user line that created the failing symbolic call).

c19_attr     real Plan / Registry / uberjob.run (sequential engine stand-in) on ONE plan that contains every kind of
             symbolic call (source, user call, registry.add, implicit gather via positional / keyword / nested keyword
             argument, explicit gather, unpack), each created on its own source line of `_site`, which itself runs
             d helper frames deep.  Exactly one operation is made to fail (XH_FAULT, the concrete case split); whether
             that operation is reached at all (value out of date or not) follows from the symbolic store state.
             The oracle is taken with sys._getframe ON THE CREATING LINE ITSELF (same source line, `_snap(), <create>`),
             so it is correct whatever lies below the harness on the stack (CrossHair's frames / the replay script).
             XH_BASE=fresh builds the plan on a brand-new stack (a new thread whose bottom frame is `_fresh_bottom`):
             the real stack then has exactly d+2 (d+3 for the source line) frames, so depths shallower than, equal to
             and deeper than the limit are all reached.  XH_BASE=inline builds it on top of the caller's stack.
c19_render   render_symbolic_traceback alone on a chain with symbolic names / paths / lines / length, an
             '/IPython/core/' frame at a symbolic position and the truncation marker present or not.
"""
import os
import sys
import _thread

import world as W
from world import begin, ok

W.install_engine()
import uberjob  # noqa: E402
from uberjob import _builtins  # noqa: E402
from uberjob._util.traceback import (  # noqa: E402
    MAX_TRACEBACK_DEPTH,
    StackFrame,
    TruncatedStackFrame,
    render_symbolic_traceback,
)

LIMIT = MAX_TRACEBACK_DEPTH + 1  # number of real frames kept ("the fixed depth limit")
FAULT = os.environ.get("XH_FAULT", "call")
BASE = os.environ.get("XH_BASE", "fresh")
FAULTS = ("call", "gpos", "gkw", "gnest", "gexp", "unpack", "addw", "addr", "srcr", "addm", "srcm")
DMAX = int(os.environ.get("XH_DMAX", "6"))  # deepest nesting of helper frames around the creating function
HEADER = "Symbolic traceback (most recent call last):"


class Boom(Exception):
    """The injected failure; args[0] is the tag of the operation that failed."""


class Empty(Exception):
    pass


def unhashable(tag):
    """A value that cannot be put in a set / used as a dict key (TypeError at gather time).  A list, not an object with a
    raising __hash__: CrossHair 0.0.110 swallows exceptions raised by __hash__ inside set() (deviation from CPython)."""
    return ["unhashable", tag]


class FStore(uberjob.ValueStore):
    """In-memory store with a logical time and injectable failures (concrete per condition)."""

    def __init__(self, name, present, t, val, fail):
        self.name, self.present, self.t, self.val, self.fail = name, present, t, val, fail
        self.log = []

    def read(self):
        self.log.append("r")
        if self.fail == "r":
            raise Boom(("r", self.name))
        if not self.present:
            raise Empty(self.name)
        return self.val

    def write(self, v):
        self.log.append("w")
        if self.fail == "w":
            raise Boom(("w", self.name))
        self.val, self.present, self.t = v, True, W.NOW + 1

    def get_modified_time(self):
        self.log.append("m")
        if self.fail == "m":
            raise Boom(("m", self.name))
        return W.T(self.t) if self.present else None


# ------------------------------------------------------------------------------------------ oracle helpers
def _snap():
    """The complete real stack of the caller, innermost first: (co_name, co_filename, f_lineno)."""
    f = sys._getframe(1)
    out = []
    while f is not None:
        out.append((f.f_code.co_name, f.f_code.co_filename, f.f_lineno))
        f = f.f_back
    return out


def _observe(sf):
    """Walk a stack_frame chain completely: (frames innermost first, marker seen, well formed)."""
    frames, trunc, n = [], False, 0
    while sf is not None:
        if sf is TruncatedStackFrame:
            trunc = True
            break
        if type(sf) is not StackFrame:
            return frames, trunc, False
        frames.append((sf.name, sf.path, sf.line))
        sf = sf.outer
        n += 1
        if n > 64:
            return frames, trunc, False
    return frames, trunc, True


def render_oracle(frames, truncated):
    """Property text: frames outermost first, '... truncated' first when truncated; IPython's own frames (and
    everything outside them) are not shown."""
    vis, cut = [], False
    for fr in frames:
        if "/IPython/core/" in fr[1]:
            cut = True
            break
        vis.append(fr)
    lines = [HEADER]
    if truncated and not cut:
        lines.append("  ... truncated")
    for i in range(len(vis) - 1, -1, -1):
        name, path, line = vis[i]
        lines.append('  File "' + path + '", line ' + str(line) + ", in " + name)
    return lines


# ------------------------------------------------------------------------------------------ the user's program
class Rec:
    pass


def consume(*a, **k):
    return ("consumed", len(a), len(k))


def _mk_source(R):
    # a helper function that builds part of the plan on behalf of its caller: one frame deeper than `_site`
    R.s_src, R.src = _snap(), R.reg.source(R.plan, R.S0)


def _site(R):
    """The user's plan-building function.  Every creating call shares its source line with the `_snap()` that
    records the real stack (tuple on one line => identical f_lineno)."""
    plan, reg = uberjob.Plan(), uberjob.Registry()
    R.plan, R.reg = plan, reg
    _mk_source(R)
    R.s_a, R.a = _snap(), plan.call(R.fa, R.src)
    R.s_add, _ = _snap(), reg.add(R.a, R.S1)
    R.bp, R.bk, R.bn, R.be, R.c = plan.call(R.fbp), plan.call(R.fbk), plan.call(R.fbn), plan.call(R.fbe), plan.call(R.fc)
    R.s_gpos, R.gpos = _snap(), plan.call(consume, {R.bp})
    R.s_gkw, R.gkw = _snap(), plan.call(consume, items={R.bk})
    R.s_gnest, R.gnest = _snap(), plan.call(consume, 1, table=[0, ({R.bn}, "v")])
    R.s_gexp, R.gexp = _snap(), plan.gather({R.be})
    R.s_unp, R.unp = _snap(), plan.unpack(R.c, 2)
    R.out = [R.a, R.gpos, R.gkw, R.gnest, R.gexp, R.unp[0], R.unp[1]]


def _nest(k, R):
    # k >= 1 helper frames around the user's function
    if k == 1:
        return _site(R)
    return _nest(k - 1, R)


def _fresh_bottom(k, R, lock):
    # bottom frame of a brand-new stack (f_back is None)
    try:
        _site(R) if k == 0 else _nest(k, R)
    except BaseException as e:  # noqa: B036 - reported to the creating thread
        R.err = e
    finally:
        lock.release()


def _build_fresh(k, R):
    """Build the plan on a new stack.  Everything in there is concrete; tracing is switched off meanwhile because
    CrossHair's sys.monitoring probes are global and its tracer state is not thread safe."""
    R.err = None
    with W.nxpatch_notrace():
        lock = _thread.allocate_lock()
        lock.acquire()
        _thread.start_new_thread(_fresh_bottom, (k, R, lock))
        lock.acquire()
    if R.err is not None:
        raise R.err


REGCOPY = os.environ.get("XH_REGCOPY", "0") == "1"
MODNAME = os.environ.get("XH_MODNAME")
if MODNAME:
    # the user's plan-building functions live in a module of the user's own whose NAME happens to start like the library's
    # (e.g. "uberjob_pipeline"): same code objects (file, lines), other f_globals["__name__"]
    import types as _types

    _g = dict(globals())
    _g["__name__"] = MODNAME
    for _n in ("_mk_source", "_site", "_nest", "_fresh_bottom"):
        _f = globals()[_n]
        _g[_n] = _types.FunctionType(_f.__code__, _g, _n, _f.__defaults__, _f.__closure__)
    for _n in ("_mk_source", "_site", "_nest", "_fresh_bottom"):
        globals()[_n] = _g[_n]


def _mk_fn(tag, fault, good, bad):
    def f(*a):
        if fault == "raise":
            raise Boom(tag)
        return bad if fault == "bad" else good

    f.__name__ = f.__qualname__ = "user_" + tag
    return f


def make_world(fault, p1, t0, t1, stores=None):
    R = Rec()
    if stores is None:
        R.S0 = FStore(0, True, t0, "srcval", {"srcr": "r", "srcm": "m"}.get(fault))
        R.S1 = FStore(1, p1, t1, ("a", "srcval"), {"addw": "w", "addr": "r", "addm": "m"}.get(fault))
    else:
        R.S0, R.S1 = stores
    def user_a(x):
        if fault == "call":
            raise Boom("a")
        return ("a", x)

    R.fa = user_a
    R.fbp = _mk_fn("bp", "bad" if fault == "gpos" else None, 1, unhashable("bp"))
    R.fbk = _mk_fn("bk", "bad" if fault == "gkw" else None, 2, unhashable("bk"))
    R.fbn = _mk_fn("bn", "bad" if fault == "gnest" else None, 3, unhashable("bn"))
    R.fbe = _mk_fn("be", "bad" if fault == "gexp" else None, 4, unhashable("be"))
    R.fc = _mk_fn("c", "bad" if fault == "unpack" else None, (7, 8), (7, 8, 9))
    return R


def expected_failure(fault, R, stale1):
    """(snapshot of the creating line, predicate on CallError.call, expected cause tag or exception type) or None
    when the faulty operation is not needed by this run (property text, one clause per kind)."""
    is_node = lambda n: (lambda c: c is n)  # noqa: E731
    has_fn = lambda fn: (lambda c: c.fn is fn and not _is_user_node(c, R))  # noqa: E731
    if fault == "call":  # the plan.call line
        return (R.s_a, is_node(R.a), "a") if stale1 else None
    if fault == "gpos":  # implicit gather of a structured positional argument: the plan.call line
        return R.s_gpos, has_fn(_builtins.gather_set), TypeError
    if fault == "gkw":  # ... of a structured keyword argument
        return R.s_gkw, has_fn(_builtins.gather_set), TypeError
    if fault == "gnest":  # ... nested inside a keyword argument (set inside a tuple inside a list); a dict key is not used:
        # CrossHair 0.0.110 does not raise TypeError for an unhashable dict key (deviation from CPython)
        return R.s_gnest, has_fn(_builtins.gather_set), TypeError
    if fault == "gexp":  # the plan.gather line (plan.gather returns the gather call itself)
        return R.s_gexp, (lambda c: c is R.gexp and c.fn is _builtins.gather_set), TypeError
    if fault == "unpack":  # the plan.unpack line
        return R.s_unp, has_fn(_builtins.unpack), ValueError
    if fault == "addw":  # failed store write: the registry.add line
        return (R.s_add, has_fn(type(R.S1).write), ("w", 1)) if stale1 else None
    if fault == "addr":  # failed read-back (after a rebuild) or read (value up to date): the registry.add line
        return R.s_add, has_fn(type(R.S1).read), ("r", 1)
    if fault == "srcr":  # failed source read: the registry.source line
        return (R.s_src, has_fn(type(R.S0).read), ("r", 0)) if stale1 else None
    if fault == "addm":  # failed modified-time query: the line that created the examined node (the plan.call line)
        return R.s_a, is_node(R.a), ("m", 1)
    if fault == "srcm":  # ... on a source: the node was created by the registry.source line
        return R.s_src, is_node(R.src), ("m", 0)
    raise AssertionError(fault)


def _is_user_node(c, R):
    for n in (R.src, R.a, R.bp, R.bk, R.bn, R.be, R.c, R.gpos, R.gkw, R.gnest, R.gexp, R.unp[0], R.unp[1]):
        if c is n:
            return True
    return False


def check_error(e, exp):
    """The whole oracle for one CallError against the snapshot taken on the creating line."""
    snapshot, call_ok, cause = exp
    if not call_ok(e.call):
        return False
    if isinstance(cause, type):
        if not isinstance(e.__cause__, cause):
            return False
    elif not (type(e.__cause__) is Boom and e.__cause__.args[0] == cause):
        return False
    frames, trunc, wf = _observe(e.call.stack_frame)
    if not wf:
        return False
    want = snapshot[:LIMIT]
    if len(frames) == 0 or frames[0] != snapshot[0]:
        return False  # innermost frame is the creating line
    if frames != want:
        return False  # then the enclosing frames, at most LIMIT of them
    if trunc != (len(snapshot) > LIMIT):
        return False  # marker iff frames were cut off (exactly LIMIT real frames: no marker)
    lines = str(e).split("\n")
    if not lines[0].startswith("An exception was raised in a symbolic call to "):
        return False
    if lines[1:] != render_oracle(want, len(snapshot) > LIMIT):
        return False
    return True


WARM = os.environ.get("XH_WARM", "0") == "1"


def c19_attr(d: int, p1: bool, t0: int, t1: int) -> bool:
    """
    pre: 0 <= d <= DMAX
    pre: t0 < 1000000000 and t1 < 1000000000
    post: _
    """
    begin()
    dc = -1
    for i in range(DMAX + 1):  # d is a small int: one path per value (exhausted path by path, not by the solver)
        if d == i:
            dc = i
            break
    if dc < 0:
        return True
    if WARM:
        # the same creating lines were reached before through a DIFFERENT caller chain (a decoy plan that is thrown away):
        # an attribution that depends on anything but the current stack (e.g. frames cached per code line) shows up here
        Rd = make_world(FAULT, p1, t0, t1)
        dd = (dc + 2) % (DMAX + 1)
        if BASE == "fresh":
            _build_fresh(dd, Rd)
        else:
            _site(Rd) if dd == 0 else _nest(dd, Rd)
    R = make_world(FAULT, p1, t0, t1)
    if BASE == "fresh":
        _build_fresh(dc, R)
        n_site, n_src = dc + 2, dc + 3
        if len(R.s_a) != n_site or len(R.s_src) != n_src or len(R.s_unp) != n_site:
            return False  # the fresh stack really has the advertised depth (validates the base)
    else:
        _site(R) if dc == 0 else _nest(dc, R)
    stale1 = (not p1) or t0 > t1  # S1 out of date: missing or older than the source it was computed from
    exp = expected_failure(FAULT, R, stale1)
    try:
        # XH_REGCOPY: the run gets a copy (of a copy) of the registry -- a copied entry is the same registration, made on the same line
        uberjob.run(R.plan, registry=(R.reg.copy().copy() if REGCOPY else R.reg), output=R.out, progress=None, max_workers=1)
    except uberjob.CallError as e:
        if exp is None:
            return False
        if not check_error(e, exp):
            return False
        # phase: a modified-time failure is raised by the stale check, before anything is read, written or called
        if FAULT in ("addm", "srcm") and ("r" in R.S0.log or "r" in R.S1.log or "w" in R.S1.log):
            return False
        return ok()
    if exp is not None:
        return False  # the faulty operation was needed: the run must have failed
    return True


# ------------------------------------------------------------------------------------------ render alone


RN = int(os.environ.get("XH_N", "3"))  # chain length (concrete case split 0..6)
C_NAMES = ["<module>", "f", "helper", "g", "<lambda>", "run_cell"]
C_PATHS = ["/p.py", "/q/r.py", "s", "<stdin>", "/IPython/x.py", "/core/t.py"]


def _render_ok(frames, trunc):
    chain = TruncatedStackFrame if trunc else None
    for i in range(len(frames) - 1, -1, -1):
        chain = StackFrame(name=frames[i][0], path=frames[i][1], line=frames[i][2], outer=chain)
    got = render_symbolic_traceback(chain)
    return got == "\n".join(render_oracle(frames, trunc))


def c19_render_pos(ip: int, trunc: bool, la: int) -> bool:
    """
    Chain of XH_N frames; symbolic: position of the IPython frame (none if outside the chain), marker, line numbers.

    pre: -1 <= ip <= 6
    pre: -2 <= la <= 10
    post: _
    """
    begin()
    lines = [la, la + 1, 10 - la, la + 95, la * 2, 7]  # int -> str is a C-level conversion: CrossHair realises la per path
    frames = []
    for i in range(RN):
        path = C_PATHS[i]
        if i == ip:
            path = "/site-packages/IPython/core/interactiveshell.py"
        frames.append((C_NAMES[i], path, lines[i]))
    if not _render_ok(frames, trunc):
        return False
    return ok()


REL = int(os.environ.get("XH_REL", "2"))
LSYM = os.environ.get("XH_LSYM") == "1"


RK = int(os.environ.get("XH_K", "0"))


def c19_render_text(trunc: bool, na: str, pa: str, la: int) -> bool:
    """
    Chain of XH_N frames; frame k = XH_K has a symbolic name / path (/ line when XH_LSYM=1); an IPython frame (symbolic text
    around the '/IPython/core/' marker) sits at position k + XH_REL (XH_REL == 2: nowhere; 0: frame k itself).

    pre: len(na) <= 2 and len(pa) <= 2
    pre: 0 <= la <= 3
    post: _
    """
    begin()
    k = RK
    if k >= RN:
        return True
    ip = -1 if REL == 2 else k + REL
    if REL != 2 and not (0 <= ip < RN):
        return True  # no such frame in this chain: covered by XH_REL=2
    frames = []
    for i in range(RN):
        name, path, line = C_NAMES[i], C_PATHS[i], 10 + i
        if i == k:
            name, path, line = na, pa, (la if LSYM else 42)
        if i == ip:
            path = (pa if i == k else "/x" + pa) + "/IPython/core/" + na
        frames.append((name, path, line))
    if not _render_ok(frames, trunc):
        return False
    return ok()


# ------------------------------------------------------------------------------------------ stub / oracle validation
def _outcome(fault, base, dc, p1, t0, t1, stores=None, causes=None):
    """One concrete run: (verdict of the oracle, signature of the CallError) -- used only by validate()."""
    R = make_world(fault, p1, t0, t1, stores)
    if base == "fresh":
        _build_fresh(dc, R)
    else:
        _site(R) if dc == 0 else _nest(dc, R)
    stale1 = (not p1) or t0 > t1
    exp = expected_failure(fault, R, stale1)
    if exp is not None and causes is not None:
        exp = (exp[0], exp[1], causes)
    try:
        uberjob.run(R.plan, registry=R.reg, output=R.out, progress=None, max_workers=2)
    except uberjob.CallError as e:
        fr, tr, _wf = _observe(e.call.stack_frame)
        sig = (getattr(e.call.fn, "__name__", "?"), tuple(fr), tr, str(e).split("\n", 1)[1], type(e.__cause__).__name__)
        return (exp is not None and check_error(e, exp)), sig
    return exp is None, None


def validate():
    """Concrete validation of every stub / oracle of this module against the real thing (no solver involved)."""
    import datetime as dt
    import tempfile
    import traceback as pytb

    import uberjob._execution.run_physical as rp
    import uberjob._transformations.caching as caching
    import uberjob._execution.run_function_on_graph as _rfg_mod

    real_engine = getattr(_rfg_mod, "_verif_real_engine", _rfg_mod.run_function_on_graph)  # (world.install_engine replaces the name everywhere)
    from uberjob.stores import JsonFileStore

    out = {"snap_vs_traceback": 0, "fresh_depth": 0, "engine_stub_vs_real": 0, "fstore_vs_filestore": 0, "failures": []}

    # (1) _snap (the oracle's frame walk) against CPython's own traceback.extract_stack, at several depths
    def at(k):
        if k == 0:
            a, b = _snap(), pytb.extract_stack()
            return a, b
        return at(k - 1)

    for k in (0, 1, 4, 9):
        a, b = at(k)
        b = [(f.name, f.filename, f.lineno) for f in reversed(b)]
        if a != b:
            out["failures"].append(("snap", k))
        out["snap_vs_traceback"] += 1

    # (2) the fresh base really is a new stack of the advertised depth
    for dc in range(0, DMAX + 1):
        R = make_world("call", True, 1, 2)
        _build_fresh(dc, R)
        if not (len(R.s_a) == dc + 2 and len(R.s_src) == dc + 3 and R.s_a[-1][0] == "_fresh_bottom"):
            out["failures"].append(("fresh", dc))
        out["fresh_depth"] += 1

    # (3) sequential engine stand-in against the real threaded engine: identical CallError for every fault
    for fault in FAULTS:
        for base in ("fresh", "inline"):
            for dc in (0, 2, 5):
                for (p1, t0, t1) in ((False, 1, 2), (True, 1, 2), (True, 2, 1)):
                    res = []
                    for eng in (W.seq_engine, real_engine):  # both runs are created by the same source line
                        caching.run_function_on_graph = rp.run_function_on_graph = eng
                        try:
                            res.append(_outcome(fault, base, dc, p1, t0, t1))
                        finally:
                            W.install_engine()
                    (v1, s1), (v2, s2) = res
                    if not (v1 and v2 and s1 == s2):
                        out["failures"].append(("engine", fault, base, dc, p1, t0, t1, v1, v2))
                    out["engine_stub_vs_real"] += 1

    # (4) FStore failures against failures of a real file store (JsonFileStore): same attribution
    with tempfile.TemporaryDirectory() as tmp:
        def fresh_files(case):
            d = os.path.join(tmp, case)
            os.makedirs(d, exist_ok=True)
            src, dst = os.path.join(d, "src.json"), os.path.join(d, "a.json")
            with open(src, "w") as f:
                f.write('"srcval"' if case != "srcr" else "{corrupt")
            os.utime(src, (1000, 1000))
            if case == "addw":
                dst = os.path.join(d, "missing_dir", "a.json")  # write fails: the directory does not exist
            if case == "addr":
                with open(dst, "w") as f:
                    f.write("{corrupt")  # up to date but unreadable
                os.utime(dst, (2000, 2000))
            return JsonFileStore(src), JsonFileStore(dst)

        for case, p1, t0, t1 in (("addw", False, 1, 2), ("addr", True, 1, 2), ("srcr", False, 1, 2)):
            for base in ("fresh", "inline"):
                for dc in (0, 2, 4):
                    res = []
                    for stores in (None, fresh_files(case)):  # both runs are created by the same source line
                        res.append(_outcome(case, base, dc, p1, t0, t1, stores=stores, causes=Exception if stores else None))
                    (vf, sf), (vr, sr) = res
                    same = sf is not None and sr is not None and sf[:3] == sr[:3] and sf[3] == sr[3]
                    if not (vf and vr and same):
                        out["failures"].append(("filestore", case, base, dc, vf, vr, sf and sf[0], sr and sr[0]))
                    out["fstore_vs_filestore"] += 1
        assert isinstance(JsonFileStore(os.path.join(tmp, "nope")).get_modified_time(), (type(None), dt.datetime))
    return out
