"""Catalog of concrete plan shapes (the case split of the E1 registry harnesses)."""
from world import Shape

def S(name, n, edges, roles, out, order=None):
    return Shape(name, n, edges, roles, out, order)

A, D = "a", "d"
QUICK = [
    S("chain_sss", 3, [(0, 1, A), (1, 2, A)], ["store", "store", "store"], 2),
    S("chain_src_s_u_s", 4, [(0, 1, A), (1, 2, A), (2, 3, A)], ["src", "store", "call", "store"], 3),
    S("join_s_s_into_s", 3, [(0, 2, A), (1, 2, A)], ["store", "store", "store"], 2),
    S("fork_unstored_mid", 4, [(0, 1, A), (1, 2, A), (1, 3, A)], ["src", "call", "store", "store"], 3),
    S("out_unstored", 3, [(0, 1, A), (1, 2, A)], ["store", "store", "call"], 2),
    S("dep_edge", 3, [(0, 1, A), (0, 2, D), (1, 2, A)], ["store", "store", "store"], None),
]
THOROUGH = QUICK + [
    S("diamond_unstored_mid", 4, [(0, 1, A), (0, 2, A), (1, 3, A), (2, 3, A)], ["store", "call", "call", "store"], 3),
    S("diamond_all", 4, [(0, 1, A), (0, 2, A), (1, 3, A), (2, 3, A)], ["store", "store", "store", "store"], 3),
    S("two_level_fanin", 4, [(0, 2, A), (1, 2, A), (2, 3, A), (0, 3, A)], ["src", "src", "store", "store"], 3),
    S("plain_dep_on_stored", 4, [(0, 1, A), (1, 2, D), (2, 3, A)], ["src", "store", "call", "store"], 3),
    S("dep_source", 4, [(0, 1, A), (1, 2, D), (2, 3, A)], ["src", "call", "src", "store"], 3),
    S("chain_u_first", 3, [(0, 1, A), (1, 2, A)], ["call", "store", "store"], 2),
    S("out_none_chain", 3, [(0, 1, A), (1, 2, A)], ["src", "store", "store"], None),
    S("out_mid", 3, [(0, 1, A), (1, 2, A)], ["store", "store", "store"], 1),
    S("unstored_sink_not_requested", 4, [(0, 1, A), (1, 2, A), (1, 3, A)], ["src", "store", "call", "store"], 3),
]
# shapes with literal nodes / chains of dependent sources: used by the cache checks (C03 C05 C08 C09) only
EXTRA = [
    S("dep_source_2pred", 4, [(0, 2, D), (1, 2, D), (2, 3, A)], ["call", "call", "src", "store"], 3),
    S("lit_mid", 3, [(0, 1, D), (1, 2, A)], ["store", "lit", "store"], 2),
    S("lit_mid_src", 4, [(0, 1, A), (1, 2, D), (2, 3, A)], ["src", "store", "lit", "store"], 3),
    S("lit_dep_only", 4, [(0, 1, A), (1, 2, D), (2, 3, D)], ["src", "store", "lit", "store"], None),
    S("lit_chain", 4, [(0, 1, D), (1, 2, D), (2, 3, D), (1, 3, A)], ["store", "lit", "lit", "store"], 3),
    S("reg_literal", 3, [(0, 1, D), (1, 2, A)], ["store", "slit", "store"], 2),
    S("reg_literal_first", 3, [(0, 1, A), (0, 2, A), (1, 2, A)], ["slit", "store", "call"], 2),
    S("dep_source_chain", 4, [(0, 1, D), (1, 2, D), (2, 3, A)], ["call", "src", "src", "store"], 3),
    # the same with the downstream source created / registered BEFORE the one it depends on
    S("dep_source_chain_rev", 4, [(0, 1, D), (1, 2, D), (2, 3, A)], ["call", "src", "src", "store"], 3, order=[0, 2, 1, 3]),
    S("lit_mid_rev", 3, [(0, 1, D), (1, 2, A)], ["store", "lit", "store"], 2, order=[1, 0, 2]),
]
EXTRA_QUICK = ["lit_mid", "reg_literal", "dep_source_2pred"]
BY_NAME = {s.name: s for s in THOROUGH + EXTRA}
