#!/bin/bash
# Development-time: run every seeded change against the check of its own property (quick tier), 2 at a time.
# usage: selftest/matrix.sh [out file] [seed name pattern]     results: one line per seed in <out>
OUT=${1:-/tmp/matrix_results.txt}; PAT=${2:-.}
cd "$(dirname "$0")/.."
: > $OUT
ls seeded | grep -E "$PAT" | xargs -P 2 -I{} bash -c 'n={}; p=${n%_*}; nice -n 10 selftest/run_seed.sh $n $p quick | grep "^SEED" >> '$OUT
sort $OUT
