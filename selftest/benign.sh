#!/bin/bash
# Development-time: run every behaviour-preserving refactoring in benign/ against the check of its own property (quick tier).
# Anything but rc=0 is a defect of the machinery (rc=1: false alarm; rc=3: the check cannot cope with a harmless rewrite).
OUT=${1:-/tmp/benign_results.txt}; PAT=${2:-.}
cd "$(dirname "$0")/.."
: > $OUT
ls benign | grep -E "$PAT" | SEED_ROOT=benign xargs -P 2 -I{} bash -c 'n={}; p=${n%_*}; SEED_ROOT=benign nice -n 10 selftest/run_seed.sh $n $p quick | grep "^SEED" >> '$OUT
sort $OUT
