#!/bin/bash
# Verify candidate seeded changes: tests pass with the change, demo fails with it, demo passes without it.
# usage: verify_seeds.sh <seed_out_dir> <result_dir>   (uses scratch worktrees under /tmp/wtv_*, removed afterwards)
IN=${1:-/tmp/seed_out}; OUT=${2:-/tmp/seed_verify}; mkdir -p $OUT
verify_one() {
  d=$1; pid=$(basename $(dirname $d)); m=$(basename $d); id=${pid}_${m}
  wt=/tmp/wtv_$id
  git -C /repo worktree add -q --detach $wt HEAD || return
  res=$OUT/$id.txt; : > $res
  if ! git -C $wt apply $d/patch.diff 2>>$res; then echo "APPLY_FAIL" >> $res; else
    (cd $wt && PYTHONPATH=$wt/src timeout 900 /venv/bin/python -m pytest -q -p no:cacheprovider --timeout=900 2>&1 | tail -1) >> $res
    timeout 120 /venv/bin/python $d/demo.py $wt/src > $OUT/$id.demo_with.log 2>&1; echo "demo_with_rc=$?" >> $res
    git -C $wt checkout -q -- .
    timeout 120 /venv/bin/python $d/demo.py $wt/src > $OUT/$id.demo_without.log 2>&1; echo "demo_without_rc=$?" >> $res
  fi
  git -C /repo worktree remove --force $wt
}
export -f verify_one; export OUT
ls -d $IN/C*/m* | xargs -P 6 -I{} bash -c 'verify_one {}'
git -C /repo worktree prune
for f in $OUT/*.txt; do echo "$(basename $f .txt): $(tr '\n' ' ' < $f)"; done
