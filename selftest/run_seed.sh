#!/bin/bash
# Development-time mutation self-test (not a registered check):  selftest/run_seed.sh <seed dir name> <pid> [tier]
# applies seeded/<seed>/patch.diff to a private scratch worktree of /repo, runs ./check <pid> against it, removes the worktree.
# Evidence / replays of such runs go to /tmp/verif_out_<worktree> (lib/common.py: OUT), never into /verif/evidence.
seed=$1; pid=$2; tier=${3:-quick}
cd "$(dirname "$0")/.."
wt=/tmp/wts_${seed}_${pid}_$$
git -C /repo worktree add -q --detach $wt HEAD || exit 9
trap 'git -C /repo worktree remove --force '$wt' >/dev/null 2>&1; rm -rf /tmp/verif_out_$(basename '$wt')' EXIT
git -C $wt apply "$PWD/${SEED_ROOT:-seeded}/$seed/patch.diff" || { echo "APPLY_FAIL $seed"; exit 9; }
s=$(date +%s)
VERIF_REPO=$wt ./check $pid $tier > /tmp/seedlog_${seed}_${pid}.txt 2>&1; rc=$?
e=$(date +%s)
echo "SEED $seed check=$pid tier=$tier rc=$rc secs=$((e-s)) :: $(grep -m1 -E 'VIOLATION|HARNESS-ERROR' /tmp/seedlog_${seed}_${pid}.txt | cut -c1-200)"
exit $rc
