#!/usr/bin/env python3
"""Rebuild the seed matrix table of DESIGN.md §11.9 from selftest/matrix_*.txt (first result per seed = first pass, last = now)."""
import json, os, re
HERE = os.path.dirname(os.path.dirname(os.path.abspath(__file__)))
files = ["matrix_pass1.txt", "matrix_pass2.txt", "matrix_pass3a.txt", "matrix_pass3b.txt", "matrix_later.txt", "matrix_pass4.txt", "matrix_later2.txt"]
res = {}
for f in files:
    p = os.path.join(HERE, "selftest", f)
    if not os.path.exists(p):
        continue
    for l in open(p):
        m = re.match(r"SEED (\S+) check=(\S+) tier=\S+ rc=(\d+) secs=(\d+) :: (.*)", l)
        if not m:
            continue
        sd, chk, rc, secs, rest = m.groups()
        how = ""
        mm = re.search(r"replays/\S+?/([^/\s]+?)\.(?:py|json)", rest) or re.search(r"replays/\S+?/(\S+)$", rest)
        if mm:
            how = mm.group(1)
        elif "(" in rest:
            how = rest[rest.index("(") + 1:].rstrip(")")[:90]
        elif rc == "3":
            how = rest[:90]
        first = res.get(sd, {}).get("first")
        res[sd] = {"first": first if first is not None else rc, "rc": rc, "how": how}
W = {"1": "caught", "0": "**missed**", "3": "exit 3"}
rows = ["| seed | change (abridged) | first run | now | decided by (condition / instance) or reason |", "|---|---|---|---|---|"]
for sd in sorted(res):
    summ = json.load(open(os.path.join(HERE, "seeded", sd, "meta.json")))["summary"][:95].replace("|", "/").replace("\n", " ")
    r = res[sd]
    rows.append(f"| {sd} | {summ} | {W[r['first']]} | {W[r['rc']]} | {r['how'].replace('|', '/')} |")
n = len(res)
c1 = sum(1 for r in res.values() if r["first"] == "1")
c2 = sum(1 for r in res.values() if r["rc"] == "1")
e3 = sorted(sd for sd, r in res.items() if r["rc"] == "3")
mi = sorted(sd for sd, r in res.items() if r["rc"] == "0")
print(f"{n} seeds; caught on first run {c1}; caught now {c2}; exit 3: {e3}; missed: {mi}")
s = open(os.path.join(HERE, "DESIGN.md")).read()
a = s.index("<!-- MATRIX-BEGIN -->")
b = s.index("<!-- MATRIX-END -->")
head = (f"{n} seeded changes, each run against the quick tier of the check of ITS OWN property (`selftest/matrix.sh`; raw lines in `selftest/matrix_*.txt`).  "
        f"'first run' = the machinery as it was when the seed was first tried (m1-m4: the first complete MANIFEST; m5/m6: after the strengthening that m1-m4 "
        f"prompted; m7/m8: after the strengthening that m5/m6 prompted): {c1}/{n} caught.  Now: {c2}/{n} caught, {len(e3)} 'exit 3' (the check says nothing: unsupported construct / inconclusive -- never a pass), "
        f"{len(mi)} missed.\n\n")
s = s[:a] + "<!-- MATRIX-BEGIN -->\n" + head + "\n".join(rows) + "\n" + s[b:]
open(os.path.join(HERE, "DESIGN.md"), "w").write(s)
