#!/usr/bin/env python3
"""Generate MANIFEST.json from the table below (single source of truth for claimed checks)."""
import json, os
HERE = os.path.dirname(os.path.dirname(os.path.abspath(__file__)))
E1_NOTE = ("Trusted base: CrossHair 0.0.110 + z3, CPython; stubs: sequential engine stand-in (engine contract established separately by the E2 checks "
           "C01/C04/C06/C07 for N<=4, W<=3), in-memory logical-clock stores, networkx untraced. Bounds: the listed plan shapes (<=4 logical nodes); "
           "symbolic ints unbounded. Outside: larger plans, overlapping store operations.")
CHECKS = {
    "C03": dict(cat="other", tech="bounded symbolic execution (CrossHair/z3): one inductive step from an arbitrary store state satisfying a declarative invariant",
                text="Solver-discharged inductive step over all store states (present flags, modified times, fresh_time symbolic) per plan shape: after a successful real uberjob.run the output and every stored value equal the from-scratch value and the invariant holds again; histories of any length follow by induction. Bounded by the shape catalog.",
                ref="DESIGN.md §4 C03", note=E1_NOTE),
    "C05": dict(cat="other", tech="bounded symbolic execution (CrossHair/z3) of the real run against a declarative staleness/events oracle",
                text="For every store state of each catalog shape (symbolic presence, times, fresh_time) the solver shows the real run's call/read/write multisets equal the declarative oracle and an immediate repeat does nothing.",
                ref="DESIGN.md §4 C05", note=E1_NOTE),
    "C08": dict(cat="other", tech="bounded symbolic execution (CrossHair/z3), cut index case-split over every operation of the run",
                text="For every cut position k (each store/call operation, measured max per shape) and every symbolic store state satisfying the invariant: invariant holds after the cut, completed writes look up to date, the follow-up run repairs without rewriting them.",
                ref="DESIGN.md §4 C08", note=E1_NOTE + " Stores are atomic by model; file-level death during a write is C11."),
}
E2_NOTE = ("Trusted base: z3 (bit-blast + sat), CPython ast, my AST->IR front end and environment model (queue.Queue contract with ANY queued item returned, "
           "Lock, Thread, networkx successors/predecessor_count, prepare_nodes closed form, fn = start/end events with symbolic outcome), Lipton reduction "
           "(lock-set fusing recomputed from the source each run). Bounds: the listed (N<=4, W<=3) instances, all schedule lengths (K is checked to be a "
           "completeness threshold by an unwinding query). Outside: larger graphs/worker counts, real OS scheduling, GIL switch points inside C code.")
def e2(text, ref):
    return dict(cat="model_checking", engine="E2-bmc", tech="bounded model checking (z3 bit-vectors) of a transition system generated from the AST of run_function_on_graph.py; counterexample schedules replayed on real threads",
                text=text, ref=ref, note=E2_NOTE)
CHECKS.update({
    "C01": e2("For every instance (concrete 3-node shapes and fully symbolic 2/3-node DAGs, W<=3) the solver shows no interleaving of the real engine statements starts a call before all its ancestors ended successfully; any model is replayed on real threads before it is reported.", "DESIGN.md §4 C01"),
    "C04": e2("Same transition system: no node's function starts twice in any interleaving, and when run returns normally every node started exactly once.", "DESIGN.md §4 C04"),
    "C06": e2("Same transition system with symbolic outcomes (ok / Exception / BaseException-only) and max_errors: nothing downstream of a failure starts; run raises iff something failed; the raised NodeError names a failed node and carries that node's exception; with one worker it is the first failure.", "DESIGN.md §4 C06"),
    "C07": e2("Unwinding query = every interleaving terminates within K steps (no deadlock, no livelock) for every failure pattern and max_errors; at return all threads have exited and nothing is in flight; on cyclic symbolic graphs the run raises before any call starts.", "DESIGN.md §4 C07"),
    "C10": e2("In-flight calls never exceed W; no lock held while a call runs; failure counts vs max_errors (<= k+W; ==min(k+1, failing roots) for W=1; exhaustive for None); for each concrete instance some schedule reaches min(W, width) calls in flight (else: proven loss of parallelism, replayed with a barrier on the real engine).", "DESIGN.md §4 C10"),
})
NOT_YET = {}
props = [json.loads(l) for l in open(os.path.join(HERE, "properties.jsonl"))]
checks, na = [], []
for p in props:
    pid = p["id"]
    if pid in CHECKS:
        c = CHECKS[pid]
        checks.append({
            "property_id": pid,
            "quick_cmd": f"./check {pid} quick",
            "thorough_cmd": f"./check {pid} thorough",
            "evidence_file": f"evidence/{pid}.json",
            "replay_cmd_template": ".venv/bin/python {path}",
            "engine": c.get("engine", "E1-crosshair"),
            "level_claimed": {"category": c["cat"], "text": c["text"], "design_ref": c["ref"]},
            "level_note": c["note"],
            "technique": c["tech"],
        })
    else:
        na.append({"property_id": pid, "reason": NOT_YET.get(pid, "check not built yet in this round (planned: see DESIGN.md §0); no claim is made")})
m = {
    "version": 1,
    "setup_cmd": "./setup.sh",
    "hooks": {"guard": "UBERJOB_VERIF", "enable": "no source hooks: harnesses monkeypatch module namespaces and use sys.settrace; checks export UBERJOB_VERIF=1 for uniformity",
              "baseline_off_cmd": "cd /repo && /venv/bin/python -m pytest -ra -q -p no:cacheprovider --timeout=900 --continue-on-collection-errors",
              "source_commits": [], "add_only": True},
    "engines": [
        {"name": "E1-crosshair", "path": "xh/ lib/xhrun.py", "serves_properties": sorted(k for k, v in CHECKS.items() if v.get("engine", "E1-crosshair") == "E1-crosshair"),
         "kind_free_text": "CrossHair symbolic execution of the real uberjob functions (z3), conditions in parallel, vacuity twins, concrete replay"},
        {"name": "E2-bmc", "path": "conc/", "serves_properties": sorted(k for k, v in CHECKS.items() if v.get("engine") == "E2-bmc"),
         "kind_free_text": "AST of run_function_on_graph -> thread transition system -> z3 bit-vector BMC with unwinding (completeness-threshold) query; schedule replay on real threads"},
        {"name": "E3-lemmas", "path": "lemmas/", "serves_properties": sorted(k for k, v in CHECKS.items() if v.get("engine") == "E3-lemmas"),
         "kind_free_text": "direct z3 obligations generated from function ASTs"},
    ],
    "checks": checks,
    "not_applicable": na,
    "notes": "Exit protocol: 0 held / 1 + VIOLATION line (model reproduced on /repo/src) / 3 harness error (inconclusive or non-reproducing model). Known findings: known_findings.jsonl.",
}
json.dump(m, open(os.path.join(HERE, "MANIFEST.json"), "w"), indent=1)
print("checks:", [c["property_id"] for c in checks], "na:", len(na))
