#!/usr/bin/env python3
"""Generate MANIFEST.json from the table below (single source of truth for claimed checks)."""
import json, os
HERE = os.path.dirname(os.path.dirname(os.path.abspath(__file__)))
E1_NOTE = ("Trusted base: CrossHair 0.0.110 + z3, CPython; stubs: sequential engine stand-in (engine contract: discharged inside the check by E2 BMC on the two "
           "smallest instances where the property quantifies over schedules, and by the E2 checks C01/C04/C06/C07 for N<=5, W<=3), in-memory logical-clock stores, networkx untraced. Bounds: the listed plan shapes (<=4 logical nodes); "
           "symbolic ints unbounded. Outside: larger plans, overlapping store operations.")
CHECKS = {
    "C03": dict(cat="other", tech="bounded symbolic execution (CrossHair/z3): one inductive step from an arbitrary store state satisfying a declarative invariant",
                text="Solver-discharged inductive step over all store states (present flags, modified times, fresh_time symbolic) per plan shape: after a successful real uberjob.run the output and every stored value equal the from-scratch value and the invariant holds again; histories of any length follow by induction. Bounded by the shape catalog.",
                ref="DESIGN.md §4 C03", note=E1_NOTE),
    "C05": dict(cat="other", tech="bounded symbolic execution (CrossHair/z3) of the real run against a declarative staleness/events oracle",
                text="For every store state of each catalog shape (symbolic presence, times, fresh_time) the solver shows the real run's call/read/write multisets equal the declarative oracle and an immediate repeat does nothing.",
                ref="DESIGN.md §4 C05", note=E1_NOTE),
    "C08": dict(cat="other", tech="bounded symbolic execution (CrossHair/z3), cut index case-split over every operation of the run",
                text="For every cut position k (each store/call operation, measured max per shape) and every symbolic store state satisfying the invariant: invariant holds after the cut, completed writes look up to date, the follow-up run repairs without rewriting them.",
                ref="DESIGN.md §4 C08", note=E1_NOTE + " Stores are atomic by model; file-level death during a write is C11."),
}
E2_NOTE = ("Trusted base: z3 (bit-blast + sat), CPython ast, my AST->IR front end and environment model (queue.Queue contract with ANY queued item returned, "
           "Lock, Thread, networkx successors/predecessor_count, prepare_nodes closed form, fn = start/end events with symbolic outcome), Lipton reduction "
           "(lock-set fusing recomputed from the source each run). Bounds: the listed (N<=4, W<=3) instances, all schedule lengths (K is checked to be a "
           "completeness threshold by an unwinding query). The parts of the environment model that are uberjob's own code are discharged as E1 lemmas inside the check: "
           "queue classes (all E2 checks), plan->engine-graph pruning (C01, C04), Kahn / cycle rejection (C07), retry and limit hand-over (C10). "
           "Outside: larger graphs/worker counts, real OS scheduling, GIL switch points inside C code.")
def e2(text, ref):
    return dict(cat="model_checking", engine="E2-bmc", tech="bounded model checking (z3 bit-vectors) of a transition system generated from the AST of run_function_on_graph.py, counterexample schedules replayed on real threads; plus bounded symbolic execution (CrossHair/z3) of the lemmas the model leans on",
                text=text, ref=ref, note=E2_NOTE)
CHECKS.update({
    "C01": e2("For every instance (concrete 3-5-node shapes with W<=3; fully symbolic DAGs on 2 nodes with 2 workers and on 3 nodes with 1 worker) the solver shows no interleaving of the real engine statements starts a call before all its ancestors ended successfully; any model is replayed on real threads before it is reported.", "DESIGN.md §4 C01"),
    "C04": e2("Same transition system: no node's function starts twice in any interleaving, and when run returns normally every node started exactly once.", "DESIGN.md §4 C04"),
    "C06": e2("Same transition system with symbolic outcomes (ok / Exception / BaseException-only) and max_errors: nothing downstream of a failure starts; run raises iff something failed; the raised NodeError names a failed node and carries that node's exception; with one worker it is the first failure.", "DESIGN.md §4 C06"),
    "C07": e2("Unwinding query = every interleaving terminates within K steps (no deadlock, no livelock) for every failure pattern and max_errors; at return all threads have exited and nothing is in flight; on cyclic symbolic graphs the run raises before any call starts; also with one refused Thread.start (RuntimeError) at any worker, and the rendering of a failed call's symbolic traceback terminates within a read budget (E1 lemma).", "DESIGN.md §4 C07, §11.11"),
    "C10": e2("In-flight calls never exceed W; no lock held while a call runs; failure counts vs max_errors (<= k+W; ==min(k+1, failing roots) for W=1; exhaustive for None); for each concrete instance some schedule reaches min(W, width) calls in flight (else: proven loss of parallelism, replayed with a barrier on the real engine).", "DESIGN.md §4 C10"),
})

FS_NOTE = ("Trusted base: CrossHair 0.0.110 + z3, CPython; stubs: ModelFS (xh/modelfs.py: dict-backed files with inodes, io.TextIOWrapper newline/encoding semantics, "
           "small arithmetic codecs, buffering extremes, fault index / death index on every file operation) patched into the uberjob.stores.* namespaces; every "
           "concrete call of a harness also runs the same scenario on the REAL file system (temp dir, injected faults, os._exit in a forked child) and must agree. "
           "Outside: kernel-level durability (POSIX rename atomicity is the stub's contract), value space of the C json/pickle serializers (CrossHair realises there).")
CHECKS.update({
    "C02": dict(cat="other", tech="bounded symbolic execution (CrossHair/z3) of get_argument_nodes / Plan._gather / run against a reference interpreter",
                text="For symbolic edge-insertion orders, argument/keyword counts, nested structure shape codes (list/tuple/set/dict/subclass/opaque, depth<=2), leaf ints and unpack lengths the solver shows run returns exactly what a 15-line reference interpreter yields, with exact container types, keyword order and identity of node-free arguments.",
                ref="DESIGN.md §4 C02", note=E1_NOTE + " Shape codes are small finite codes exhausted path by path; leaf values, sort keys and lengths are symbolic."),
    "C09": dict(cat="other", tech="bounded symbolic execution (CrossHair/z3): physical plan of the real dry run vs declarative ordering requirements, plus a real run on normalising stores",
                text="For every store state of each catalog shape: write call per rebuilt value, write->read path, argument consumers fed by the read node (never the call), plain dependents after the write, upstream write before downstream write, stale dependent source read after its predecessors, output redirected; consumers/outputs receive read()'s value.",
                ref="DESIGN.md §4 C09", note=E1_NOTE + " 'Before in every schedule' is decided as 'path in the physical plan' (engine contract C01)."),
    "C11": dict(cat="other", tech="bounded symbolic execution (CrossHair/z3) of the real store classes over a model file system with symbolic fault / death indices",
                text="For every store class, path kind, symbolic old/new content and every fault index (raise) / death index over the file operations of a write: target holds complete old or complete new value, mtime changes only with the new value, no staging file after an exception, a left-over staging file does not disturb later writes/reads.",
                ref="DESIGN.md §4 C11", note=FS_NOTE),
    "C12": dict(cat="other", tech="bounded symbolic execution (CrossHair/z3) of the real store classes over a model file system (symbolic text/bytes, encodings)",
                text="read-after-write returns an equal value of the same type for symbolic str (<=3-4 chars, any code point) x encodings and bytes, directly and through MountedStore; Json/Pickle/Touch on solver-chosen concrete values; get_modified_time None iff absent/inaccessible and non-decreasing under a constant-offset clock (zone transitions: see C18).",
                ref="DESIGN.md §4 C12", note=FS_NOTE),
    "C13": dict(cat="other", tech="bounded symbolic execution (CrossHair/z3) with structural snapshots and write guards on the caller's Plan / Registry",
                text="For symbolic store states, dry_run flag, failure position, output kinds and render arguments: no mutator of the caller's graph/registry is ever called and the structural snapshot (node identities, scopes, edges with keys, registry entries) is unchanged after run / dry_run / render, on success and on failure; copies are independent.",
                ref="DESIGN.md §4 C13", note=E1_NOTE + " Concurrent runs of one plan are argued from the write guard, not explored."),
    "C14": dict(cat="other", tech="bounded symbolic execution (CrossHair/z3): dry run vs real run from two copies of a symbolic store state",
                text="dry_run performs only get_modified_time on the stores and no call; executing the returned physical plan without registry yields the same calls, reads, writes, final store contents and output as the real run from the same state.",
                ref="DESIGN.md §4 C14", note=E1_NOTE),
    "C15": dict(cat="other", tech="bounded symbolic execution (CrossHair/z3) of the real run with a recording observer; composite observer on symbolic notification sequences",
                text="For symbolic store states, scope values, failure index: enter first / exit once and last, totals before running, every running closed exactly once, completed == total after success, run/stale totals equal executed/examined calls per scope; composite forwards every notification to every member.",
                ref="DESIGN.md §4 C15", note=E1_NOTE + " Pairing under real concurrency rests on process() being per-node sequential code plus the engine contract; not explored on threads."),
    "C16": dict(cat="other", tech="bounded symbolic execution (CrossHair/z3) with a reference walk from uberjob's live frames/closures after every call boundary",
                text="For symbolic DAGs (N<=3 quick, 4 thorough), processing orders, failing node and failure kind, edge kinds and output kinds: after every process(node) a result is reachable from what uberjob holds only if it is (part of) the output or an argument consumer has not finished.",
                ref="DESIGN.md §4 C16", note=E1_NOTE + " Outside: actual freeing by CPython; references that live only in unreachable garbage cycles."),
    "C18": dict(cat="other", tech="bounded symbolic execution (CrossHair/z3) of the real stale check on datetimes generated from symbolic instants, offsets and a symbolic process zone",
                text="Stale set equals the instant-based oracle for all-naive-local values in zones without a fall-back, all-aware values in any zone, and any mix in the UTC zone; the two known finding classes (aware vs naive-local with non-zero offset; naive-local across a DST fall-back) are reported as KNOWN-FINDING.",
                ref="DESIGN.md §4 C18", note="Trusted base: CrossHair 0.0.110 + z3, CPython; datetime model MDT validated on every concrete call against real datetime + POSIX TZ + real files. Bounds: one zone transition, |offsets| <= 14 h, jump <= 3 h, instants within 1e6 s of the transition, shapes chain2/chain3u/join/src_chain."),
    "C19": dict(cat="other", tech="bounded symbolic execution (CrossHair/z3) of plan construction + failing runs against frame snapshots taken on the creating line",
                text="For symbolic nesting depth (shallower/equal/deeper than the limit), every kind of symbolic call and failure phase: CallError.call is the failing call, its stack_frame chain starts at the creating line followed by the enclosing frames up to the limit then the truncation marker; the rendered message lists them outermost first.",
                ref="DESIGN.md §4 C19", note=E1_NOTE + " Depth and kind are small codes exhausted path by path; renderer inputs (names, paths, lines) are symbolic."),
    "C20": dict(cat="other", tech="bounded symbolic execution (CrossHair/z3) of the renderers and of the update thread under a symbolic schedule; z3 linear real arithmetic over terms computed by the real State methods",
                text="Renderers never raise and show every scope's progress for symbolic kinds/counts; for every 2-thread schedule (12 symbolic choices) of <=3 notifications then __exit__ the last output reflects the final state; for every legal history (K<=5, 2 scopes x 2 calls) with symbolic gaps the attributed elapsed time sums to the busy time (reals).",
                ref="DESIGN.md §4 C20", note="Trusted base: CrossHair 0.0.110 + z3, CPython; AST transformation of _run_update_thread into a generator (granularity checked on the source); Lock/Event/Thread/time stubs; floats as reals; widgets run untraced on realised counts."),
})
CHECKS["C17"] = e2("With one asynchronous KeyboardInterrupt transition in the coordinating thread (any step boundary while a call is in flight): no worker passes its stop test once the coordinator has begun releasing the workers, in-flight calls end, every thread exits (no deadlock: unwinding query), run raises KeyboardInterrupt.", "DESIGN.md §4 C17")
CHECKS["C17"]["note"] = E2_NOTE + " Interrupt positions = before every shared-state operation of the coordinator and before every call-like operation on its own bookkeeping (so 'thread started, not yet recorded' is a position); the start/append window carries the known finding C17:interrupt-between-thread-start-and-append (reported as KNOWN-FINDING; every other bit there, and every bit everywhere else, must be clean). Real SIGINT delivery (replaced by an exception raised from a sys.monitoring instruction callback) and a second interrupt are outside."

NOT_YET = {}
props = [json.loads(l) for l in open(os.path.join(HERE, "properties.jsonl"))]
checks, na = [], []
for p in props:
    pid = p["id"]
    if pid in CHECKS:
        c = CHECKS[pid]
        checks.append({
            "property_id": pid,
            "quick_cmd": f"./check {pid} quick",
            "thorough_cmd": f"./check {pid} thorough",
            "evidence_file": f"evidence/{pid}.json",
            "replay_cmd_template": "./check --replay {path}",
            "engine": c.get("engine", "E1-crosshair"),
            "level_claimed": {"category": c["cat"], "text": c["text"], "design_ref": c["ref"]},
            "level_note": c["note"],
            "technique": c["tech"],
        })
    else:
        na.append({"property_id": pid, "reason": NOT_YET.get(pid, "check not built yet in this round (planned: see DESIGN.md §0); no claim is made")})
m = {
    "version": 1,
    "setup_cmd": "./setup.sh",
    "hooks": {"guard": "UBERJOB_VERIF", "enable": "no source hooks: harnesses monkeypatch module namespaces and use sys.settrace; checks export UBERJOB_VERIF=1 for uniformity",
              "baseline_off_cmd": "cd /repo && /venv/bin/python -m pytest -ra -q -p no:cacheprovider --timeout=900 --continue-on-collection-errors",
              "source_commits": [], "add_only": True},
    "engines": [
        {"name": "E1-crosshair", "path": "xh/ lib/xhrun.py lemmas/", "serves_properties": sorted(k for k, v in CHECKS.items() if v.get("engine", "E1-crosshair") == "E1-crosshair"),
         "kind_free_text": "CrossHair symbolic execution of the real uberjob functions (z3), conditions in parallel, vacuity twins, concrete replay"},
        {"name": "E2-bmc", "path": "conc/", "serves_properties": sorted(k for k, v in CHECKS.items() if v.get("engine") == "E2-bmc"),
         "kind_free_text": "AST of run_function_on_graph -> thread transition system -> z3 bit-vector BMC with unwinding (completeness-threshold) query; schedule replay on real threads"},
        {"name": "E3-lemmas", "path": "lemmas/", "serves_properties": sorted(k for k, v in CHECKS.items() if v.get("engine") == "E3-lemmas"),
         "kind_free_text": "direct z3 obligations generated from function ASTs"},
    ],
    "checks": checks,
    "not_applicable": na,
    "known_findings_file": "known_findings.jsonl",
    "notes": "Exit protocol: 0 held / 1 + VIOLATION line (model reproduced on /repo/src) / 3 harness error (inconclusive or non-reproducing model). Known findings: known_findings.jsonl.",
}
json.dump(m, open(os.path.join(HERE, "MANIFEST.json"), "w"), indent=1)
print("checks:", [c["property_id"] for c in checks], "na:", len(na))
