#!/bin/bash
# Development-time: run every thorough command once, end to end, sequentially; one summary line per check.
cd "$(dirname "$0")/.."
for p in ${@:-C18 C20 C12 C11 C02 C03 C05 C09 C14 C13 C15 C19 C16 C08 C10 C06 C04 C07 C17 C01}; do
  s=$(date +%s); nice -n 5 ./check $p thorough > thorough_$p.log 2>&1; rc=$?; e=$(date +%s)
  echo "THOROUGH $p rc=$rc secs=$((e-s)) :: $(grep -E 'VIOLATION|HARNESS-ERROR' thorough_$p.log | head -2 | cut -c1-200 | tr '\n' ' ') :: $(tail -1 thorough_$p.log | cut -c1-160)"
done
