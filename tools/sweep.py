#!/usr/bin/env python3
"""Concrete sanity sweep of a cache harness over small store states (development aid, not a check):
   tools/sweep.py <harness func> [shape names...]   -> prints the states for which the harness returns False / raises."""
import itertools, json, os, subprocess, sys
HERE = os.path.dirname(os.path.dirname(os.path.abspath(__file__)))
CODE = r'''
import os, sys, json, itertools
sys.path[:0] = [os.path.join(%(here)r, "xh"), %(here)r]
import harness_cache as H
f = getattr(H, %(fn)r)
n = H.SHAPE.n
bad = 0; tot = 0
for P in itertools.product([False, True], repeat=n):
    for perm in itertools.permutations([10, 20, 30, 40][:n]):
        for hf, ft in ((False, 5), (True, 5), (True, 15), (True, 25), (True, 35), (True, 45)):
            a = []
            for j in range(4):
                a += [P[j] if j < n else False, perm[j] if j < n else 50 + j]
            tot += 1
            try:
                r = f(*a, hf, ft)
            except BaseException as e:
                r = repr(e)
            if r is not True:
                bad += 1
                if bad <= 5: print("  BAD", H.SHAPE.name, a, hf, ft, "->", r)
print(H.SHAPE.name, "states", tot, "bad", bad)
'''
def main():
    fn = sys.argv[1]
    sys.path.insert(0, os.path.join(HERE, "xh"))
    os.environ.setdefault("VERIF_SRC", os.environ.get("VERIF_REPO", "/repo") + "/src")
    import shapes
    names = sys.argv[2:] or [s.name for s in shapes.THOROUGH]
    procs = []
    for nm in names:
        env = dict(os.environ, XH_SHAPE=json.dumps(shapes.BY_NAME[nm].to_json()))
        procs.append(subprocess.Popen([os.path.join(HERE, ".venv/bin/python"), "-c", CODE % {"here": HERE, "fn": fn}], env=env))
    for p in procs: p.wait()
main()
