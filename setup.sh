#!/bin/bash
# Build the overlay venv used by every check (idempotent, offline).
set -e
cd "$(dirname "$0")"
V=.venv
if [ ! -x $V/bin/python ] || ! $V/bin/python -c "import crosshair, z3, networkx, jsonschema" 2>/dev/null; then
  rm -rf $V
  /venv/bin/python -m venv $V
  SP=$($V/bin/python -c "import sysconfig; print(sysconfig.get_paths()['purelib'])")
  # see /venv's packages (networkx, nxv, ipywidgets ...) but NOT its installed copy of uberjob first:
  # /repo/src is put first on sys.path by every check itself.
  echo "import site; site.addsitedir('/venv/lib/python3.12/site-packages')" > $SP/zz_venv_overlay.pth
  PIP_NO_INDEX=1 $V/bin/pip install -q --no-index --find-links /opt/veriftools/wheels crosshair-tool z3-solver jsonschema >/dev/null
fi
$V/bin/python -c "import crosshair, z3, networkx, jsonschema; print('setup ok: crosshair', crosshair.__version__ if hasattr(crosshair,'__version__') else '', 'z3', z3.get_version_string())"
