import sys, threading, time, os
sys.path.insert(0,"/repo/src")
import uberjob
from uberjob._execution import run_function_on_graph as R
FILE=R.__file__
started=threading.Event(); release=threading.Event(); log=[]
def slow():
    log.append("start"); started.set(); release.wait(5); log.append("end"); return 1
plan=uberjob.Plan(); a=plan.call(slow); b=plan.call(lambda x:x+1, a)
fired=[False]
def local(frame,event,arg):
    # coordinator: in worker_pool, at the loop line, 2nd iteration, once a call is executing
    if event=="line" and frame.f_code.co_name=="worker_pool" and not fired[0] and started.is_set():
        fired[0]=True; release.set()
        raise KeyboardInterrupt()
    return local
def glob(frame,event,arg):
    if frame.f_code.co_filename==FILE and frame.f_code.co_name=="worker_pool": return local
    return None
# make the main thread slow enough that worker 1 starts the call before worker 2 is created
orig=R.worker_thread
def slow_worker_thread(q,p):
    t=orig(q,p); started.wait(2); return t
R.worker_thread=slow_worker_thread
def watchdog():
    time.sleep(8); print("HANG: run did not return within 8 s; threads:", [t.name for t in threading.enumerate()], "log:", log, flush=True); os._exit(1)
threading.Thread(target=watchdog, daemon=True).start()
sys.settrace(glob)
try:
    print(uberjob.run(plan, output=b, max_workers=2, progress=None))
except KeyboardInterrupt:
    print("KeyboardInterrupt propagated; log:", log)
