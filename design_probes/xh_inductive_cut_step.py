import sys, os
sys.path.insert(0, "/repo/src")
import uberjob
import xh_nx; xh_nx.install()
from uberjob._util.networkx_util import topological_sort, assert_acyclic
import uberjob._transformations.caching as caching
import uberjob._execution.run_physical as rp
from uberjob._errors import NodeError

def seq_engine(graph, fn, *, worker_count=None, max_errors=0, scheduler=None):
    assert_acyclic(graph)
    for n in list(topological_sort(graph)):
        fn(n)   # first failure propagates (max_errors=0, one worker)
caching.run_function_on_graph = seq_engine
rp.run_function_on_graph = seq_engine

SHAPE=os.environ.get("SHAPE","101"); STORED=os.environ.get("STORED","101")
E={(0,1):SHAPE[0]=="1",(0,2):SHAPE[1]=="1",(1,2):SHAPE[2]=="1"}
S=[c=="1" for c in STORED]

class T:
    __slots__=("t",)
    tzinfo=None
    def __init__(self,t): self.t=t
    def __gt__(self,o): return self.t>o.t
    def __lt__(self,o): return self.t<o.t
    def __eq__(self,o): return isinstance(o,T) and self.t==o.t
    def __hash__(self): return 0
import datetime as dt
class FT(dt.datetime):
    def __new__(cls, t):
        o=dt.datetime.__new__(cls, 2000, 1, 1); o.t=t; return o
    def __gt__(self,o): return self.t>o.t
    def __lt__(self,o): return self.t<o.t
    def __eq__(self,o): return hasattr(o,'t') and self.t==o.t
    def __hash__(self): return 0
class Cut(Exception): pass
class World:
    def __init__(self, t, k): self.t=t; self.ops=0; self.k=k; self.log=[]
    def op(self, what):
        i=self.ops; self.ops+=1
        if i==self.k: raise Cut(what)
    def tick(self): self.t+=1; return self.t
class St(uberjob.ValueStore):
    def __init__(self, name, present, t, val, w): self.name=name; self.present=present; self.t=t; self.val=val; self.w=w
    def read(self):
        self.w.op(("r",self.name)); self.w.log.append(("r", self.name))
        if not self.present: raise Exception("empty")
        return self.val
    def write(self,v):
        self.w.op(("w-before",self.name))
        self.val=v; self.present=True; self.t=self.w.tick(); self.w.log.append(("w", self.name))
        self.w.op(("w-after",self.name))
    def get_modified_time(self):
        self.w.op(("m",self.name)); return T(self.t) if self.present else None
def mk(name, w):
    def f(*a):
        w.op(("c",name)); w.log.append(("c", name)); return (name,)+a
    return f

def U(j, P, TT):
    if not P[j]: return False
    def anc_ok(i):
        for h in range(i):
            if E[(h,i)]:
                if S[h]:
                    if not U(h,P,TT) or not (TT[h] < TT[j]): return False
                else:
                    if not anc_ok(h): return False
        return True
    return anc_ok(j)

CUT=int(os.environ.get('CUT','-1'))
def step(p0: bool, t0: int, p1: bool, t1: int, p2: bool, t2: int, hf: bool, ft: int) -> bool:
    """
    pre: t0 != t1 and t1 != t2 and t0 != t2
    post: _
    """
    P=[p0,p1,p2]; TT=[t0,t1,t2]; K=[S[j] and U(j,P,TT) for j in range(3)]; k=CUT
    for j in range(3):
        if S[j] and U(j,P,TT) and not K[j]: return True      # pre-state violates invariant I: out of scope
    w=World(max(t0,t1,t2,ft), k)
    plan=uberjob.Plan(); reg=uberjob.Registry(); nodes=[]; scratch=[]; stores=[]
    for j in range(3):
        args=[nodes[i] for i in range(j) if E[(i,j)]]
        sv=(j,)+tuple(scratch[i] for i in range(j) if E[(i,j)])
        n=plan.call(mk(j,w), *args); nodes.append(n); scratch.append(sv)
        if S[j]:
            st=St(j,P[j],TT[j], sv if K[j] else ("garbage",j), w); reg.add(n,st); stores.append(st)
        else: stores.append(None)
    cut=False
    try:
        out=uberjob.run(plan, registry=reg, output=nodes[2], progress=None, max_workers=1, fresh_time=FT(ft) if hf else None)
    except uberjob.CallError as e:
        if not isinstance(e.__cause__, Cut): return False
        cut=True
    P2=[stores[j].present if S[j] else False for j in range(3)]
    T2=[stores[j].t if S[j] else 0 for j in range(3)]
    K2=[(stores[j].val==scratch[j]) if S[j] else False for j in range(3)]
    # invariant after
    for j in range(3):
        if S[j] and U(j,P2,T2) and not K2[j]: return False
    # completed writes look up to date afterwards
    for j in range(3):
        if S[j] and ("w",j) in w.log and not U(j,P2,T2): return False
    if not cut:
        if out != scratch[2]: return False
        for j in range(3):
            if S[j] and not (P2[j] and K2[j]): return False
    return True
