import sys
sys.path.insert(0, "/repo/src")
import uberjob
import xh_nx; xh_nx.install()
from uberjob._util.networkx_util import topological_sort, assert_acyclic
import uberjob._transformations.caching as caching
import uberjob._execution.run_physical as rp

def seq_engine(graph, fn, *, worker_count=None, max_errors=0, scheduler=None):
    assert_acyclic(graph)
    for n in list(topological_sort(graph)):
        fn(n)
caching.run_function_on_graph = seq_engine
rp.run_function_on_graph = seq_engine

class T:
    __slots__=("t",)
    tzinfo=None
    def __init__(self,t): self.t=t
    def __gt__(self,o): return self.t>o.t
    def __lt__(self,o): return self.t<o.t
    def __eq__(self,o): return isinstance(o,T) and self.t==o.t
    def __hash__(self): return 0

class Clock:
    def __init__(self, t): self.t=t
    def tick(self):
        self.t += 1; return self.t

class St(uberjob.ValueStore):
    def __init__(self, name, present, t, val, clock, log): self.name=name; self.present=present; self.t=t; self.val=val; self.clock=clock; self.log=log
    def read(self):
        self.log.append(("r", self.name))
        if not self.present: raise Exception("empty")
        return self.val
    def write(self,v):
        self.log.append(("w", self.name)); self.val=v; self.present=True; self.t=self.clock.tick()
    def get_modified_time(self): return T(self.t) if self.present else None

def mk(name, log):
    def f(*a):
        log.append(("c", name)); return (name,)+a
    return f

def check(e01: bool, e02: bool, e12: bool, s0: bool, s1: bool, s2: bool,
          p0: bool, t0: int, k0: bool, p1: bool, t1: int, k1: bool, p2: bool, t2: int, k2: bool) -> bool:
    """
    pre: t0 != t1 and t1 != t2 and t0 != t2
    post: _
    """
    log=[]
    clock = Clock(max(t0,t1,t2))
    plan = uberjob.Plan(); reg = uberjob.Registry()
    E = {(0,1):e01,(0,2):e02,(1,2):e12}
    S=[s0,s1,s2]; P=[p0,p1,p2]; TT=[t0,t1,t2]; K=[k0,k1,k2]
    nodes=[]; scratch=[]; stores=[]
    for j in range(3):
        args=[nodes[i] for i in range(j) if E[(i,j)]]
        sargs=tuple(scratch[i] for i in range(j) if E[(i,j)])
        n = plan.call(mk(j,log), *args)
        sv=(j,)+sargs
        nodes.append(n); scratch.append(sv)
        if S[j]:
            st=St(j,P[j],TT[j], sv if K[j] else ("garbage",j), clock, log); reg.add(n, st); stores.append(st)
        else: stores.append(None)
    # invariant: looks-up-to-date => ok
    def U(j, memo={}):
        # stored j looks up to date
        if not P[j]: return False
        def anc_time_ok(i):
            # all stored ancestors through unstored chains
            for h in range(i):
                if E[(h,i)]:
                    if S[h]:
                        if not U(h) or not (TT[h] < TT[j]): return False
                    else:
                        if not anc_time_ok(h): return False
            return True
        return anc_time_ok(j)
    for j in range(3):
        if S[j] and U(j) and not K[j]:
            return True  # precondition (invariant) violated: vacuous
    out = uberjob.run(plan, registry=reg, output=nodes[2], progress=None, max_workers=1)
    if out != scratch[2]: return False
    for j in range(3):
        if S[j]:
            wrote = ("w",j) in log
            if wrote != (not U(j)): return False
            if not (stores[j].present and stores[j].val == scratch[j]): return False
    return True
