import sys
sys.path.insert(0, "/repo/src")
import uberjob
def f(*a): return 0
def check(e01: bool) -> bool:
    """
    post: _
    """
    plan = uberjob.Plan()
    a = plan.call(f)
    args = [a] if e01 else []
    b = plan.call(f, *args)
    g = plan.graph
    print("orig", [id(n) for n in g._node], id(a), id(b), file=sys.stderr)
    p2 = plan.copy()
    g2 = p2.graph
    print("copy", [id(n) for n in g2._node],  [id(n) for n in g2._pred], file=sys.stderr)
    return True
