import sys, threading, dis, os
SRC=sys.argv[1]; sys.path.insert(0,SRC)
import networkx as nx
from uberjob._execution import run_function_on_graph as R
FILE=R.__file__
OPS=set()
class Ctl:
    """Serialises threads at gate points (line starts, plus the STORE_SUBSCR opcode of an augmented subscript assignment)."""
    def __init__(self, policy):
        self.cv=threading.Condition(); self.turn=None; self.policy=policy; self.waiting={}; self.log=[]
    def gate(self, frame, kind):
        me=threading.current_thread().name
        key=(frame.f_code.co_name, frame.f_lineno, kind)
        with self.cv:
            self.waiting[me]=key; self.cv.notify_all()
            while True:
                nxt=self.policy(self)
                if nxt==me: break
                self.cv.notify_all(); self.cv.wait(0.05)
            del self.waiting[me]; self.log.append((me,)+key)
def make_trace(ctl):
    def local(frame, event, arg):
        if event=="line": ctl.gate(frame,"line")
        elif event=="opcode":
            op=dis.opname[frame.f_code.co_code[frame.f_lasti]]
            OPS.add(op)
            if op=="STORE_SUBSCR": ctl.gate(frame,"store")
        return local
    def glob(frame, event, arg):
        if frame.f_code.co_filename==FILE and frame.f_code.co_name=="process_node" and threading.current_thread().name!="MainThread":
            frame.f_trace_opcodes=True
            return local
        return None
    return glob
# policy: lost update. Let worker A run until it is waiting at its 'store' gate; then let B run to completion of its decrement (past its store); then anyone.
state={"phase":0}
def policy(ctl):
    w=ctl.waiting
    names=sorted(w)
    if state["phase"]==0:
        # advance any thread not yet at a store gate, prefer the lexicographically first; once both are at 'store' -> phase 1
        notstore=[n for n in names if w[n][2]!="store"]
        atstore=[n for n in names if w[n][2]=="store"]
        if len(atstore)==2: state["phase"]=1; return atstore[0]
        if len(names)<2: return None
        return notstore[0] if notstore else None
    return names[0] if names else None
g=nx.MultiDiGraph(); 
for n in "abc": g.add_node(n)
g.add_edge("a","c"); g.add_edge("b","c")
ran=[]
ctl=Ctl(policy)
threading.settrace(make_trace(ctl))
R.run_function_on_graph(g, lambda n: ran.append(n), worker_count=2, scheduler="cheap")
threading.settrace(None)
print(sorted(OPS)); print(ctl.log[-12:])
print("ran:",ran, "| c executed:", "c" in ran)
