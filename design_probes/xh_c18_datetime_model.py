import sys, os, datetime as dt
sys.path.insert(0, "/repo/src")
import uberjob
import xh_nx; xh_nx.install()
from uberjob._util.networkx_util import topological_sort, assert_acyclic
import uberjob._transformations.caching as caching
from uberjob.progress._null_progress_observer import NullProgressObserver
def seq_engine(graph, fn, *, worker_count=None, max_errors=0, scheduler=None):
    assert_acyclic(graph)
    for n in list(topological_sort(graph)): fn(n)
caching.run_function_on_graph = seq_engine

class UTCMarker: pass
class DT:
    """duck-typed datetime: wall seconds + optional utc offset (None = naive)"""
    def __init__(self, wall, off): self.wall=wall; self.off=off
    @property
    def tzinfo(self): return None if self.off is None else UTCMarker()
    def astimezone(self, tz):
        assert tz is dt.timezone.utc and self.off is not None   # naive.astimezone would consult the local zone: not used by the code today
        return DT(self.wall - self.off, 0)
    def replace(self, tzinfo): 
        assert tzinfo is None; return DT(self.wall, None)
    def _cmp(self, o):
        if (self.off is None) != (o.off is None): raise TypeError("can't compare offset-naive and offset-aware datetimes")
        return (self.wall - (self.off or 0)) - (o.wall - (o.off or 0))
    def __gt__(self,o): return self._cmp(o)>0
    def __lt__(self,o): return self._cmp(o)<0
    def __eq__(self,o): return isinstance(o,DT) and (self.off is None)==(o.off is None) and self._cmp(o)==0
    def __hash__(self): return 0
class St(uberjob.ValueStore):
    def __init__(self, v): self.v=v
    def read(self): return 0
    def write(self, v): pass
    def get_modified_time(self): return self.v
def f(*a): return 0
ZERO=os.environ.get("L0ZERO")=="1"
def rep(u, aware, off, L0):
    return DT(u+off, off) if aware else DT(u+L0, None)
def check(ua:int, aa:bool, oa:int, ub:int, ab:bool, ob:int, hf:bool, uf:int, af:bool, of:int, L0:int) -> bool:
    """
    pre: ua != ub and ua != uf and ub != uf and -50400 <= oa <= 50400 and -50400 <= ob <= 50400 and -50400 <= of <= 50400 and -50400 <= L0 <= 50400
    post: _
    """
    if ZERO and L0 != 0: return True
    plan=uberjob.Plan(); reg=uberjob.Registry()
    a=plan.call(f); reg.add(a, St(rep(ua,aa,oa,L0)))
    b=plan.call(f,a); reg.add(b, St(rep(ub,ab,ob,L0)))
    stale=caching._get_stale_nodes(plan, reg, retry=lambda g:g, fresh_time=rep(uf,af,of,L0) if hf else None, progress_observer=NullProgressObserver())
    oa_ = hf and uf > ua
    ob_ = oa_ or ua > ub or (hf and uf > ub)
    return ((a in stale)==oa_) and ((b in stale)==ob_)
