import sys, inspect
sys.path.insert(0, "/repo/src")
from uberjob.progress._simple_progress_observer import sorted_scope_items, ScopeState
import uberjob
class Opaque:
    def __init__(self,i): self.i=i
    def __eq__(self,o): return isinstance(o,Opaque) and self.i==o.i
    def __hash__(self): return 7
def mk(kind:int, v:int):
    return v if kind==0 else (str(v) if kind==1 else Opaque(v))
def sort_ok(k1:int,v1:int,k2:int,v2:int,k3:int,v3:int,k4:int,v4:int) -> bool:
    """
    pre: 0<=k1<=2 and 0<=k2<=2 and 0<=k3<=2 and 0<=k4<=2
    post: _
    """
    a=(mk(k1,v1),mk(k2,v2)); b=(mk(k3,v3),mk(k4,v4))
    d={a:ScopeState(total=1)}
    if not (a==b): d[b]=ScopeState(total=1)
    try:
        sorted_scope_items(d)
    except TypeError:
        return False
    return True

def nest(d, thunk):
    if d<=0: return thunk()
    return nest(d-1, thunk)
def frames(depth:int) -> bool:
    """
    pre: 0<=depth<=5
    post: _
    """
    plan=uberjob.Plan()
    box=[]
    def thunk():
        c=plan.call(len, "x"); box.append(inspect.currentframe().f_lineno - 0); return c
    c=nest(depth, thunk)
    sf=c.stack_frame
    names=[]
    while sf is not None and not isinstance(sf, uberjob._util.traceback.TruncatedStackFrameType):
        names.append(sf.name); sf=sf.outer
    exp=(["thunk"]+["nest"]*(depth+1))[:4]
    return names[:len(exp)]==exp and names[0]=="thunk" and len(names)<=4
