"""Prototype v2: coarse atomic actions, functional BV encoding, sticky bad flag, fixed depth K with termination (unwinding) check."""
import z3, sys, time, os
N=int(sys.argv[1]); W=int(sys.argv[2]); K=int(sys.argv[3]); BUG=sys.argv[4] if len(sys.argv)>4 else ""
BW=4
def bv(x): return z3.BitVecVal(x,BW)
Bv=z3.BitVecSort(BW); B=z3.BoolSort()
IDLE,CHK,RUN,SUCC,TD,TDR,END, S_RD,S_WR,S_TST = range(10)
M_JOIN,M_STOP,M_PUT,M_WJOIN,M_END=range(5)
def ite(c,a,b): return z3.If(c,a,b)
# constants
adjv={(i,j):z3.Bool(f"adj_{i}_{j}") for i in range(N) for j in range(N) if i!=j}
def adj(i,j): return adjv[(i,j)] if i!=j else z3.BoolVal(False)
rank=[z3.BitVec(f"rank_{i}",BW) for i in range(N)]
fail=[z3.Bool(f"fail_{i}") for i in range(N)]
maxerr=z3.BitVec("maxerr",BW); hasmax=z3.Bool("hasmax")
def predcount(j):
    e=bv(0)
    for i in range(N): e=e+ite(adj(i,j),bv(1),bv(0))
    return e
PC=[predcount(j) for j in range(N)]
cons=[z3.Implies(adj(i,j), z3.ULT(rank[i],rank[j])) for i in range(N) for j in range(N) if i!=j]+[z3.ULE(maxerr,bv(N))]
G=os.environ.get("GRAPH")
if G is not None:
    E={tuple(map(int,e.split(">"))) for e in G.split(",") if e}
    cons+=[adj(i,j)==((i,j) in E) for i in range(N) for j in range(N) if i!=j]
def sel(vec,idx):
    e=vec[0]
    for i in range(1,len(vec)): e=ite(idx==i,vec[i],e)
    return e
def upd(vec,idx,val): return [ite(idx==i,val,vec[i]) for i in range(len(vec))]

class S: pass
def init():
    s=S()
    s.q=[ite(PC[i]==0,bv(1),bv(0)) for i in range(N)]
    s.cnt=list(PC); s.started=[bv(0)]*N; s.ok=[z3.BoolVal(False)]*N; s.failed=[z3.BoolVal(False)]*N
    s.qdone=bv(0); u=bv(0)
    for x in s.q: u=u+x
    s.unf=u; s.stop=z3.BoolVal(False); s.errc=bv(0); s.first_set=z3.BoolVal(False); s.first=bv(0)
    s.pc=[bv(IDLE)]*W; s.item=[bv(0)]*W; s.sidx=[bv(0)]*W; s.succ=[bv(0)]*W; s.tmp=[bv(0)]*W
    s.mpc=bv(M_JOIN); s.mi=bv(0); s.bad=z3.BoolVal(False)
    return s
FIELDS_V=["q","cnt","started","ok","failed","pc","item","sidx","succ","tmp"]; FIELDS_S=["qdone","unf","stop","errc","first_set","first","mpc","mi","bad"]
def copy(s):
    t=S()
    for f in FIELDS_V: setattr(t,f,list(getattr(s,f)))
    for f in FIELDS_S: setattr(t,f,getattr(s,f))
    return t
def mux(c,a,b):
    t=S()
    for f in FIELDS_V: setattr(t,f,[ite(c,x,y) if x is not y else x for x,y in zip(getattr(a,f),getattr(b,f))])
    for f in FIELDS_S:
        x,y=getattr(a,f),getattr(b,f); setattr(t,f, ite(c,x,y) if x is not y else x)
    return t
def fresh(s,k):
    t=S(); eqs=[]
    for f in FIELDS_V:
        new=[]
        for i,x in enumerate(getattr(s,f)):
            c=z3.Const(f"{f}_{i}@{k}", x.sort()); eqs.append(c==x); new.append(c)
        setattr(t,f,new)
    for f in FIELDS_S:
        x=getattr(s,f); c=z3.Const(f"{f}@{k}", x.sort()); eqs.append(c==x); setattr(t,f,c)
    return t,eqs

def worker_step(s,w,choice):
    pc=s.pc[w]; item=s.item[w]
    outs=[]
    for n in range(N):
        t=copy(s); t.q[n]=s.q[n]-1; t.item[w]=bv(n); t.pc[w]=bv(CHK)
        outs.append((z3.And(pc==IDLE, choice==n, s.q[n]!=0), t))
    t=copy(s); t.qdone=s.qdone-1; t.pc[w]=bv(TDR)
    outs.append((z3.And(pc==IDLE, choice==N, s.qdone!=0), t))
    t=copy(s); t.pc[w]=ite(s.stop,bv(TD),bv(RUN)); t.started=[ite(z3.And(z3.Not(s.stop),item==i), s.started[i]+1, s.started[i]) for i in range(N)]
    c01=z3.And(z3.Not(s.stop), z3.Or([z3.And(item==n, adj(p,n), z3.Not(s.ok[p])) for n in range(N) for p in range(N) if p!=n]))
    c04=z3.And(z3.Not(s.stop), sel(s.started,item)!=0)
    t.bad=z3.Or(s.bad,c01,c04)
    outs.append((pc==CHK,t))
    fl=sel(fail,item)
    t=copy(s)
    t.ok=[z3.Or(s.ok[i], z3.And(item==i, z3.Not(fl))) for i in range(N)]
    t.failed=[z3.Or(s.failed[i], z3.And(item==i, fl)) for i in range(N)]
    t.errc=ite(fl,s.errc+1,s.errc); t.first_set=z3.Or(s.first_set,fl); t.first=ite(z3.And(fl,z3.Not(s.first_set)),item,s.first)
    t.stop=z3.Or(s.stop, z3.And(fl, hasmax, z3.UGT(s.errc+1,maxerr)))
    t.pc[w]=ite(fl,bv(TD),bv(SUCC)); t.sidx[w]=bv(0)
    outs.append((pc==RUN,t))
    arow=[sel([adj(i,k) for i in range(N)],item) for k in range(N)]
    cand=[z3.And(z3.ULE(s.sidx[w],bv(k)), arow[k]) for k in range(N)]
    none=z3.And(*[z3.Not(c) for c in cand])
    t=copy(s); t.pc[w]=bv(TD); outs.append((z3.And(pc==SUCC,none),t))
    for j in range(N):
        isnext=z3.And(cand[j], *[z3.Not(cand[k]) for k in range(j)])
        single=PC[j]==1
        if BUG=="nolock":
            t=copy(s); t.sidx[w]=bv(j+1); t.succ[w]=bv(j)
            t.q[j]=ite(single,s.q[j]+1,s.q[j]); t.unf=ite(single,s.unf+1,s.unf); t.pc[w]=ite(single,bv(SUCC),bv(S_RD))
            outs.append((z3.And(pc==SUCC,isnext),t))
        else:
            t=copy(s); t.sidx[w]=bv(j+1)
            newc=ite(single,s.cnt[j],s.cnt[j]-1); put=z3.Or(single,newc==0)
            t.cnt[j]=newc; t.q[j]=ite(put,s.q[j]+1,s.q[j]); t.unf=ite(put,s.unf+1,s.unf)
            outs.append((z3.And(pc==SUCC,isnext),t))
    if BUG=="nolock":
        t=copy(s); t.tmp[w]=sel(s.cnt,s.succ[w]); t.pc[w]=bv(S_WR); outs.append((pc==S_RD,t))
        t=copy(s); t.cnt=upd(s.cnt,s.succ[w],s.tmp[w]-1); t.pc[w]=bv(S_TST); outs.append((pc==S_WR,t))
        t=copy(s); z=sel(s.cnt,s.succ[w])==0
        t.q=[ite(z3.And(z,s.succ[w]==i),s.q[i]+1,s.q[i]) for i in range(N)]; t.unf=ite(z,s.unf+1,s.unf); t.pc[w]=bv(SUCC); outs.append((pc==S_TST,t))
    t=copy(s); t.unf=s.unf-1; t.pc[w]=bv(IDLE); outs.append((pc==TD,t))
    t=copy(s); t.unf=s.unf-1; t.pc[w]=bv(END); outs.append((pc==TDR,t))
    en=z3.Or([g for g,_ in outs]); nxt=s
    for g,t in outs: nxt=mux(g,t,nxt)
    return en,nxt
def worker_enabled_any(s,w):
    pc=s.pc[w]
    return z3.Or(z3.And(pc==IDLE, z3.Or(s.qdone!=0,*[s.q[n]!=0 for n in range(N)])), z3.And(pc!=IDLE, pc!=END))
def main_step(s):
    outs=[]
    t=copy(s); t.mpc=bv(M_STOP); outs.append((z3.And(s.mpc==M_JOIN,s.unf==0),t))
    t=copy(s); t.stop=z3.BoolVal(True); t.mi=bv(0); t.mpc=bv(M_PUT); outs.append((s.mpc==M_STOP,t))
    t=copy(s); t.qdone=s.qdone+1; t.unf=s.unf+1; t.mi=s.mi+1; t.mpc=ite(s.mi+1==W,bv(M_WJOIN),bv(M_PUT)); outs.append((s.mpc==M_PUT,t))
    t=copy(s); t.mpc=bv(M_END)
    t.bad=z3.Or(s.bad, z3.And(z3.Not(s.first_set), z3.Or([s.started[n]!=1 for n in range(N)])))
    outs.append((z3.And(s.mpc==M_WJOIN,*[s.pc[w]==END for w in range(W)]),t))
    en=z3.Or([g for g,_ in outs]); nxt=s
    for g,t in outs: nxt=mux(g,t,nxt)
    return en,nxt

g=[]; g+=cons
s,eq=fresh(init(),0); g+=eq
for k in range(K):
    sched=z3.BitVec(f"sched@{k}",BW); choice=z3.BitVec(f"choice@{k}",BW)
    ens=[]; nxt=s
    allend=s.mpc==M_END
    for w in range(W):
        en,t=worker_step(s,w,choice); ens.append(z3.And(sched==w,en)); nxt=mux(sched==w,t,nxt)
    men,t=main_step(s); ens.append(z3.And(sched==W,men)); nxt=mux(sched==W,t,nxt)
    dl=z3.And(z3.Not(allend), z3.Not(men), *[z3.Not(worker_enabled_any(s,w)) for w in range(W)])
    st=copy(s); st.bad=z3.Or(s.bad,dl)
    g.append(z3.Or(z3.Or(ens), z3.And(sched==W+1, z3.Or(allend,dl))))
    nxt=mux(sched==W+1,st,nxt)
    s,eq=fresh(nxt,k+1); g+=eq
MODE=os.environ.get("Q","bad")
if MODE=="bad": g.append(s.bad)
else: g.append(z3.And(s.mpc!=M_END, z3.Not(s.bad)))
t0=time.time()
tac=z3.Then('simplify','propagate-values','solve-eqs','bit-blast','sat')
sol=tac.solver(); sol.add(*g); r=sol.check(); print(f"N={N} W={W} K={K} bug={BUG} Q={MODE} G={G}:",r,round(time.time()-t0,1), flush=True)
if str(r)=="sat" and os.environ.get("SHOW"):
    m=sol.model()
    print([m.eval(z3.BitVec(f"sched@{k}",BW)) for k in range(K)])
