import sys, random
sys.path.insert(0, "/repo/src")
from typing import List
from uberjob._execution.scheduler import PriorityQueue, RandomQueue
import uberjob._execution.scheduler as sch
from uberjob.progress._simple_progress_observer import State
import uberjob.progress._simple_progress_observer as spo

def pq(items: List[int], new: int) -> bool:
    """
    pre: len(items) <= 3
    post: _
    """
    q = PriorityQueue(list(items), lambda x: x)
    q._put(new)
    out = [q._get() for _ in range(len(items) + 1)]
    return sorted(out) == sorted(items + [new]) and out == sorted(out) and q._qsize() == 0

def rq(items: List[int], new: int, r: int) -> bool:
    """
    pre: len(items) <= 3 and 0 <= r <= len(items)
    post: _
    """
    q = RandomQueue([])
    q.queue = list(items)
    sch.random = type("R", (), {"randrange": staticmethod(lambda n: r), "shuffle": staticmethod(lambda l: None)})
    q._put(new)
    n = q._qsize()
    got = q._get()
    rest = list(q.queue)
    sch.random = random
    return n == len(items) + 1 and sorted(rest + [got]) == sorted(items + [new])

def elapsed(r1: int, r2: int, t0: float, t1: float, t2: float) -> bool:
    """
    pre: 0 <= r1 <= 2 and 0 <= r2 <= 2 and 0.0 <= t0 <= t1 <= t2 <= 1000.0
    post: _
    """
    clock = [t1, t2]
    spo.time = type("T", (), {"time": staticmethod(lambda: clock.pop(0))})
    s = State(t0)
    s.increment_total("run", ("a",), 3); s.increment_total("run", ("b",), 3)
    busy = 0.0
    # put r1, r2 running without clock movement
    clock[:0] = [t0] * (r1 + r2)
    for _ in range(r1): s.increment_running("run", ("a",))
    for _ in range(r2): s.increment_running("run", ("b",))
    s.update_weighted_elapsed()  # reads t1
    if r1 + r2 > 0: busy += t1 - t0
    s.update_weighted_elapsed()  # reads t2
    if r1 + r2 > 0: busy += t2 - t1
    tot = sum(x.weighted_elapsed for x in s.section_scope_mapping["run"].values())
    import time as _t; spo.time = _t
    return abs(tot - busy) <= 1e-6
