"""Make networkx graph classes run untraced under CrossHair."""
import functools, types
import networkx as nx
from crosshair.tracers import NoTracing, is_tracing

def _untraced(fn):
    @functools.wraps(fn)
    def w(*a, **k):
        if is_tracing():
            with NoTracing():
                return fn(*a, **k)
        return fn(*a, **k)
    return w

def install():
    for cls in (nx.Graph, nx.DiGraph, nx.MultiGraph, nx.MultiDiGraph):
        for name, val in list(vars(cls).items()):
            if isinstance(val, types.FunctionType) and name not in ("__init__",):
                setattr(cls, name, _untraced(val))
