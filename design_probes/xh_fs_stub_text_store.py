import sys, builtins, os, io
sys.path.insert(0, "/repo/src")
import uberjob.stores._file_store as fs
import uberjob.stores._text_file_store as tfs
from uberjob.stores import TextFileStore

class Fault(Exception): pass

class FS:
    """Model file system: path -> str content. newline=None text semantics per io docs."""
    def __init__(self, files, fault_at, kill):
        self.files=dict(files); self.ops=0; self.fault_at=fault_at
    def tick(self, what):
        k=self.ops; self.ops+=1
        if k==self.fault_at: raise OSError("injected "+what)
class WFile:
    def __init__(self, fsm, path, newline): self.fsm=fsm; self.path=path; self.buf=""; self.closed=False; self.newline=newline
    def write(self, s):
        self.fsm.tick("write"); self.fsm.files[self.path]=self.fsm.files[self.path]+s; return len(s)
    def __enter__(self): return self
    def __exit__(self,*a):
        self.fsm.tick("close"); return False
class RFile:
    def __init__(self, content, newline): self.c=content; self.newline=newline
    def read(self):
        if self.newline is None:
            out=[]; i=0; c=self.c
            while i < len(c):
                ch=c[i]
                if ch=="\r":
                    out.append("\n")
                    if i+1<len(c) and c[i+1]=="\n": i+=1
                else: out.append(ch)
                i+=1
            return "".join(out)
        return self.c
    def __enter__(self): return self
    def __exit__(self,*a): return False

def install(fsm):
    def _open(path, mode="r", encoding=None, newline=None, **kw):
        path=str(path)
        if "w" in mode:
            fsm.tick("open"); fsm.files[path]=""; return WFile(fsm,path,newline)
        if path not in fsm.files: raise FileNotFoundError(path)
        return RFile(fsm.files[path], newline)
    def _replace(a,b):
        fsm.tick("replace"); a=str(a); b=str(b); fsm.files[b]=fsm.files.pop(a)
    def _remove(a):
        a=str(a)
        if a not in fsm.files: raise FileNotFoundError(a)
        del fsm.files[a]
    fs.open=_open; tfs.open=_open
    fs.os=type("os",(),{"replace":staticmethod(_replace),"remove":staticmethod(_remove),"path":os.path})

def roundtrip(s: str) -> bool:
    """
    pre: len(s) <= 3
    post: _
    """
    fsm=FS({}, -1, False); install(fsm)
    st=TextFileStore("p"); st.write(s)
    return st.read()==s

def atomic(old: str, new: str, had_old: bool, k: int) -> bool:
    """
    pre: len(old) <= 2 and len(new) <= 2 and 0 <= k <= 5
    post: _
    """
    fsm=FS({"p":old} if had_old else {}, k, False); install(fsm)
    st=TextFileStore("p")
    try:
        st.write(new); failed=False
    except OSError:
        failed=True
    tgt=fsm.files.get("p")
    if failed:
        if "p.STAGING" in fsm.files: return False
        return tgt == (old if had_old else None)
    return tgt==new and "p.STAGING" not in fsm.files
