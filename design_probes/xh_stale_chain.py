import sys
sys.path.insert(0, "/repo/src")
import datetime as dt
import uberjob
from uberjob._util.networkx_util import topological_sort
import uberjob._transformations.caching as caching
import uberjob._execution.run_physical as rp

def seq_engine(graph, fn, *, worker_count=None, max_errors=0, scheduler=None):
    from uberjob._util.networkx_util import assert_acyclic
    assert_acyclic(graph)
    for n in list(topological_sort(graph)):
        fn(n)
caching.run_function_on_graph = seq_engine
rp.run_function_on_graph = seq_engine

class T:
    __slots__=("t",)
    tzinfo=None
    def __init__(self,t): self.t=t
    def __gt__(self,o): return self.t>o.t
    def __lt__(self,o): return self.t<o.t
    def __ge__(self,o): return self.t>=o.t
    def __le__(self,o): return self.t<=o.t
    def __eq__(self,o): return isinstance(o,T) and self.t==o.t
    def __hash__(self): return 0

class St(uberjob.ValueStore):
    def __init__(self, present, t): self.present=present; self.t=t; self.w=0; self.r=0
    def read(self): self.r+=1; return 1
    def write(self,v): self.w+=1
    def get_modified_time(self): return T(self.t) if self.present else None

def f(*a): return 0

def check(pa: bool, ta: int, pb: bool, tb: int, pc: bool, tc: int, hf: bool, ft: int) -> bool:
    """
    pre: ta != tb and tb != tc and ta != tc
    post: _
    """
    plan = uberjob.Plan(); reg = uberjob.Registry()
    sa, sb, sc = St(pa,ta), St(pb,tb), St(pc,tc)
    a = reg.source(plan, sa)
    b = plan.call(f, a); reg.add(b, sb)
    m = plan.call(f, b)
    c = plan.call(f, m); reg.add(c, sc)
    from uberjob.progress._null_progress_observer import NullProgressObserver
    stale = caching._get_stale_nodes(plan, reg, retry=lambda g: g, fresh_time=T(ft) if hf else None, progress_observer=NullProgressObserver())
    # oracle
    oa = not pa
    ob = oa or (not pb) or ta > tb or (hf and ft > tb)
    oc = ob or (not pc) or tb > tc or (hf and ft > tc)
    return (a in stale) == oa and (b in stale) == ob and (c in stale) == oc
